//! Copies the repository's real `SharedLen` source into OUT_DIR with `std::sync` switched to
//! `loom::sync` (and the `mod default;` line dropped), so that the loom model in main.rs
//! explores the code that is in /repo's working tree, not a transcription of it.
use std::{env, fs, path::PathBuf};

fn main() {
    let src = PathBuf::from(env::var("CARGO_MANIFEST_DIR").unwrap()).join("../../../repo/crates/vecdb/src/base/shared_len/mod.rs");
    println!("cargo:rerun-if-changed={}", src.display());
    let text = fs::read_to_string(&src).expect("read shared_len/mod.rs");
    assert!(text.contains("use std::sync::{"), "shared_len/mod.rs no longer imports std::sync in the expected form");
    // `anydb_verif` is renamed to a cfg that is never set: the model is built from the lines
    // that a production build compiles (the guarded variants only add the event tap)
    let text = text.replace("use std::sync::{", "use loom::sync::{").replace("mod default;", "").replace("anydb_verif", "anydb_verif_never_set");
    fs::write(PathBuf::from(env::var("OUT_DIR").unwrap()).join("shared_len.rs"), text).unwrap();
}
