//! loom model of the publication protocol of vecdb's `SharedLen` (supplement to C09): the
//! writer fills a slot and then publishes the length; a reader that observes the published
//! length reads the slot. Under the C11 memory model loom explores every execution, including
//! the reorderings a `Relaxed` store or load would permit; the slot is a `loom::cell::
//! UnsafeCell`, so an access without a happens-before edge is reported as a race.
//!
//! The source of `SharedLen` is the repository's own file (see build.rs).
//! Output: one line `LOOM executions=<n> result=<ok|violation: ...>`; exit 0 / 1.

#![allow(dead_code, unexpected_cfgs)]

mod rawdb {
    // stand-in for the event tap the real file calls under cfg(anydb_verif)
    pub mod verif {
        pub enum Event {
            Atomic { name: &'static str, store: bool, value: usize },
        }
        pub fn emit(_e: Event) {}
    }
}

mod shared_len {
    #[allow(unused_imports)]
    use super::rawdb;
    include!(concat!(env!("OUT_DIR"), "/shared_len.rs"));
}

use std::sync::atomic::{AtomicU64, Ordering};

use shared_len::SharedLen;

static EXECUTIONS: AtomicU64 = AtomicU64::new(0);

fn body(readers: usize, rounds: usize) {
    EXECUTIONS.fetch_add(1, Ordering::Relaxed);
    let len = SharedLen::new(0);
    let slots: Vec<loom::sync::Arc<loom::cell::UnsafeCell<u64>>> = (0..rounds).map(|_| loom::sync::Arc::new(loom::cell::UnsafeCell::new(0))).collect();
    let mut hs = Vec::new();
    for _ in 0..readers {
        let len = len.clone();
        let slots = slots.clone();
        hs.push(loom::thread::spawn(move || {
            let mut last = 0;
            for _ in 0..2 {
                let n = len.get();
                assert!(n >= last, "length went backwards: {last} -> {n}");
                last = n;
                for (i, s) in slots.iter().enumerate().take(n) {
                    // every element below the observed length is there
                    let v = s.with(|p| unsafe { *p });
                    assert_eq!(v, 100 + i as u64, "element {i} below the observed length {n} is not the value written");
                }
            }
        }));
    }
    for (i, s) in slots.iter().enumerate() {
        s.with_mut(|p| unsafe { *p = 100 + i as u64 });
        len.set(i + 1);
    }
    for h in hs {
        h.join().unwrap();
    }
}

fn main() {
    let args: Vec<String> = std::env::args().collect();
    let thorough = args.get(1).is_some_and(|a| a == "thorough");
    let (readers, rounds) = if thorough { (2, 2) } else { (1, 2) };
    let r = std::panic::catch_unwind(|| {
        let mut b = loom::model::Builder::new();
        b.preemption_bound = if thorough { Some(3) } else { None };
        b.check(move || body(readers, rounds));
    });
    let n = EXECUTIONS.load(Ordering::Relaxed);
    match r {
        Ok(()) => {
            println!("LOOM executions={n} readers={readers} rounds={rounds} result=ok");
        }
        Err(p) => {
            let msg = p.downcast_ref::<String>().cloned().or_else(|| p.downcast_ref::<&str>().map(|s| s.to_string())).unwrap_or_else(|| "panic".into());
            println!("LOOM executions={n} readers={readers} rounds={rounds} result=violation: {}", msg.lines().next().unwrap_or(""));
            std::process::exit(1);
        }
    }
}
