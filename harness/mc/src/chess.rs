//! chess — a CHESS-style controller for real threads running the real library.
//!
//! Every tap event of a registered thread that touches shared state is a scheduling
//! point: the thread publishes what it is about to do and parks; exactly one registered
//! thread runs at a time. Enabledness of a lock request is decided from the *real* lock
//! (parking_lot's `is_locked` / `is_locked_exclusive`) while everybody else is parked, so
//! a thread that is given the turn never blocks inside parking_lot. Writer preference is
//! modelled explicitly: a write request that cannot be granted may *enqueue* (a transition
//! of its own, so both arrival orders are explored); while a writer is queued on a lock,
//! new read requests on it are disabled.

use std::{
    cell::Cell,
    collections::BTreeMap,
    sync::{Arc, OnceLock},
    time::{Duration, Instant},
};

use parking_lot::{Condvar, Mutex};
use rawdb::verif::{Event, LockMode, Probe};

thread_local! {
    static TID: Cell<Option<usize>> = const { Cell::new(None) };
}

#[derive(Clone, Debug)]
pub enum Pending {
    Start,
    Lock {
        class: &'static str,
        mode: LockMode,
        addr: usize,
        probe: Probe,
    },
    /// a write request that arrived while the lock was held: waits in the queue
    QueuedWrite {
        class: &'static str,
        addr: usize,
        probe: Probe,
    },
    Join { token: usize },
    /// any other shared-state step (always enabled)
    Step(&'static str),
}

#[derive(Clone, Debug, PartialEq)]
enum Status {
    Running,
    Parked,
    Finished,
}

struct Th {
    status: Status,
    pending: Pending,
    token: Option<usize>,
    /// (class, mode) of every lock request granted, most recent last (for reports)
    history: Vec<String>,
    name: String,
}

#[derive(Clone, Debug)]
pub struct PointRec {
    pub enabled: Vec<usize>,
    pub chosen: usize,
    /// the thread that arrived at this point could have continued
    pub running_still_enabled: bool,
    pub arriving: Option<usize>,
    pub what: String,
}

#[derive(Clone, Debug, Default)]
pub struct Verdict {
    pub deadlock: Option<String>,
    pub horizon: bool,
    pub divergence: Option<String>,
}

struct State {
    threads: Vec<Th>,
    current: Option<usize>,
    prefix: Vec<u16>,
    trace: Vec<PointRec>,
    abort: bool,
    verdict: Verdict,
    writer_preference: bool,
    /// only lock requests (and spawn / join) are scheduling points: sufficient for
    /// deadlock detection, where data steps cannot change who waits for whom
    locks_only: bool,
    last_progress: Instant,
    horizon: usize,
}

pub struct Ctl {
    st: Mutex<State>,
    cv: Condvar,
}

static ACTIVE: OnceLock<Mutex<Option<Arc<Ctl>>>> = OnceLock::new();

fn active() -> Option<Arc<Ctl>> {
    ACTIVE.get_or_init(|| Mutex::new(None)).lock().clone()
}

/// Payload used to unwind a thread when an execution is aborted (deadlock / horizon).
pub struct Aborted;

impl Ctl {
    pub fn new(n_body: usize, prefix: Vec<u16>, writer_preference: bool, locks_only: bool, names: &[String]) -> Arc<Self> {
        let threads = (0..n_body)
            .map(|i| Th {
                status: Status::Parked,
                pending: Pending::Start,
                token: None,
                history: vec![],
                name: names.get(i).cloned().unwrap_or_else(|| format!("t{i}")),
            })
            .collect();
        Arc::new(Self {
            st: Mutex::new(State {
                threads,
                current: None,
                prefix,
                trace: Vec::new(),
                abort: false,
                verdict: Verdict::default(),
                writer_preference,
                locks_only,
                last_progress: Instant::now(),
                horizon: 6000,
            }),
            cv: Condvar::new(),
        })
    }

    pub fn install(self: &Arc<Self>) {
        *ACTIVE.get_or_init(|| Mutex::new(None)).lock() = Some(self.clone());
        rawdb::verif::set_skip_bg_sleep(true);
        crate::tap::set_controller(Some(Arc::new(on_event)));
    }

    pub fn uninstall() {
        crate::tap::set_controller(None);
        rawdb::verif::set_skip_bg_sleep(false);
        *ACTIVE.get_or_init(|| Mutex::new(None)).lock() = None;
    }

    fn enabled_of(st: &State, t: usize) -> bool {
        let th = &st.threads[t];
        if th.status != Status::Parked {
            return false;
        }
        match &th.pending {
            Pending::Start | Pending::Step(_) => true,
            Pending::Join { token } => st
                .threads
                .iter()
                .any(|x| x.token == Some(*token) && x.status == Status::Finished),
            Pending::Lock { mode, addr, probe, .. } => {
                let (locked, exclusive) = probe(*addr);
                match mode {
                    LockMode::Mutex => !locked,
                    // not grantable: the request may still enqueue (a transition)
                    LockMode::Write => !locked || st.writer_preference,
                    LockMode::Read => {
                        let queued = st.writer_preference
                            && st.threads.iter().enumerate().any(|(i, x)| {
                                i != t
                                    && x.status == Status::Parked
                                    && matches!(&x.pending, Pending::QueuedWrite { addr: a, .. } if a == addr)
                            });
                        !exclusive && !queued
                    }
                }
            }
            Pending::QueuedWrite { addr, probe, .. } => !probe(*addr).0,
        }
    }

    /// Picks the next thread to run. `arriving` is the thread that just reached a point
    /// (None at start or when a thread finished).
    fn decide(st: &mut State, mut arriving: Option<usize>) {
        loop {
            if st.abort {
                return;
            }
            let n = st.threads.len();
            let mut enabled: Vec<usize> = Vec::new();
            if let Some(a) = arriving {
                if Self::enabled_of(st, a) {
                    enabled.push(a);
                }
            }
            for t in 0..n {
                if Some(t) != arriving && Self::enabled_of(st, t) {
                    enabled.push(t);
                }
            }
            if enabled.is_empty() {
                if st.threads.iter().all(|t| t.status == Status::Finished) {
                    st.current = None;
                    return;
                }
                // some thread unfinished, none enabled
                let mut desc = String::new();
                for (i, t) in st.threads.iter().enumerate() {
                    if t.status == Status::Finished {
                        continue;
                    }
                    let want = match &t.pending {
                        Pending::Lock { class, mode, .. } => format!("{class}({mode:?})"),
                        Pending::QueuedWrite { class, .. } => format!("{class}(Write, queued)"),
                        Pending::Join { token } => format!("join(bg{token})"),
                        Pending::Start => "start".into(),
                        Pending::Step(s) => (*s).into(),
                    };
                    let held: Vec<&str> = t.history.iter().rev().take(4).map(|s| s.as_str()).collect();
                    desc.push_str(&format!("[{}#{i} waits for {want}; last acquired: {}] ", t.name, held.join(" <- ")));
                }
                st.verdict.deadlock = Some(desc);
                st.abort = true;
                st.current = None;
                return;
            }
            let pos = st.trace.len();
            if pos >= st.horizon {
                st.verdict.horizon = true;
                st.abort = true;
                st.current = None;
                return;
            }
            let idx = if pos < st.prefix.len() {
                let i = st.prefix[pos] as usize;
                if i >= enabled.len() {
                    st.verdict.divergence = Some(format!(
                        "replay divergence at point {pos}: choice {i} of {} enabled",
                        enabled.len()
                    ));
                    st.abort = true;
                    st.current = None;
                    return;
                }
                i
            } else {
                0
            };
            let chosen = enabled[idx];
            let what = match &st.threads[chosen].pending {
                Pending::Lock { class, mode, .. } => format!("{}:{class}:{mode:?}", st.threads[chosen].name),
                Pending::QueuedWrite { class, .. } => format!("{}:{class}:write-dequeue", st.threads[chosen].name),
                Pending::Join { token } => format!("{}:join:{token}", st.threads[chosen].name),
                Pending::Start => format!("{}:start", st.threads[chosen].name),
                Pending::Step(s) => format!("{}:{s}", st.threads[chosen].name),
            };
            st.trace.push(PointRec {
                running_still_enabled: arriving.is_some() && enabled.first() == arriving.as_ref(),
                enabled: enabled.clone(),
                chosen: idx,
                arriving,
                what,
            });
            st.last_progress = Instant::now();
            // a write request that cannot be granted now enqueues instead of running
            if let Pending::Lock { class, mode: LockMode::Write, addr, probe } = st.threads[chosen].pending.clone() {
                if probe(addr).0 {
                    st.threads[chosen].pending = Pending::QueuedWrite { class, addr, probe };
                    arriving = Some(chosen);
                    continue;
                }
            }
            if let Pending::Lock { class, mode, .. } = &st.threads[chosen].pending {
                let s = format!("{class}({mode:?})");
                st.threads[chosen].history.push(s);
            }
            if let Pending::QueuedWrite { class, .. } = &st.threads[chosen].pending {
                let s = format!("{class}(Write)");
                st.threads[chosen].history.push(s);
            }
            st.current = Some(chosen);
            return;
        }
    }

    fn wait_turn(&self, mut st: parking_lot::MutexGuard<'_, State>, tid: usize) {
        self.cv.notify_all();
        while st.current != Some(tid) && !st.abort {
            self.cv.wait(&mut st);
        }
        if st.abort {
            drop(st);
            self.cv.notify_all();
            // already unwinding (a guard's destructor reached a tap): just let it go on
            if std::thread::panicking() {
                return;
            }
            std::panic::resume_unwind(Box::new(Aborted));
        }
        st.threads[tid].status = Status::Running;
    }

    /// Called by a registered thread at a scheduling point.
    fn point(&self, tid: usize, pending: Pending) {
        let mut st = self.st.lock();
        if st.abort && std::thread::panicking() {
            return;
        }
        if st.locks_only && matches!(pending, Pending::Step(s) if s != "spawned") {
            return;
        }
        st.threads[tid].status = Status::Parked;
        st.threads[tid].pending = pending;
        Self::decide(&mut st, Some(tid));
        self.wait_turn(st, tid);
    }

    /// First call of a body thread: waits for its first turn.
    pub fn enter(self: &Arc<Self>, tid: usize) {
        TID.with(|t| t.set(Some(tid)));
        let st = self.st.lock();
        self.wait_turn(st, tid);
    }

    /// Last call of a thread.
    pub fn finish(&self, tid: usize) {
        TID.with(|t| t.set(None));
        let mut st = self.st.lock();
        st.threads[tid].status = Status::Finished;
        if !st.abort {
            Self::decide(&mut st, None);
        }
        drop(st);
        self.cv.notify_all();
    }

    /// Makes the first scheduling decision (all body threads are parked at Start).
    pub fn start(&self) {
        let mut st = self.st.lock();
        Self::decide(&mut st, None);
        drop(st);
        self.cv.notify_all();
    }

    fn register_bg(&self, token: usize) -> usize {
        let mut st = self.st.lock();
        let id = st.threads.len();
        st.threads.push(Th {
            status: Status::Parked,
            pending: Pending::Start,
            token: Some(token),
            history: vec![],
            name: format!("bg{token}"),
        });
        drop(st);
        self.cv.notify_all();
        id
    }

    fn wait_registered(&self, token: usize) {
        let mut st = self.st.lock();
        let t0 = Instant::now();
        while !st.threads.iter().any(|t| t.token == Some(token)) {
            self.cv.wait_for(&mut st, Duration::from_millis(20));
            if t0.elapsed() > Duration::from_secs(10) {
                break;
            }
        }
    }

    pub fn result(&self) -> (Vec<PointRec>, Verdict) {
        let st = self.st.lock();
        (st.trace.clone(), st.verdict.clone())
    }

    pub fn stalled_for(&self) -> Duration {
        self.st.lock().last_progress.elapsed()
    }

    pub fn all_finished(&self) -> bool {
        self.st.lock().threads.iter().all(|t| t.status == Status::Finished)
    }

    pub fn abort_now(&self, why: &str) {
        let mut st = self.st.lock();
        if st.verdict.deadlock.is_none() && st.verdict.divergence.is_none() {
            st.verdict.divergence = Some(why.to_string());
        }
        st.abort = true;
        drop(st);
        self.cv.notify_all();
    }

    pub fn describe(&self) -> String {
        let st = self.st.lock();
        let mut m: BTreeMap<usize, String> = BTreeMap::new();
        for (i, t) in st.threads.iter().enumerate() {
            m.insert(i, format!("{} {:?} {:?}", t.name, t.status, t.pending));
        }
        format!("current={:?} trace_len={} threads={m:?}", st.current, st.trace.len())
    }
}

fn verbose() -> bool {
    static V: std::sync::OnceLock<bool> = std::sync::OnceLock::new();
    *V.get_or_init(|| std::env::var_os("VERIF_CHESS_VERBOSE").is_some())
}

/// The tap callback: turns events of registered threads into scheduling points.
fn on_event(ev: &Event) {
    let Some(ctl) = active() else { return };
    let tid = TID.with(|t| t.get());
    match ev {
        Event::ThreadStart { token } => {
            // a library background thread introduces itself and parks
            let id = ctl.register_bg(*token);
            ctl.enter(id);
            return;
        }
        Event::ThreadEnd { .. } => {
            if let Some(t) = tid {
                ctl.finish(t);
            }
            return;
        }
        _ => {}
    }
    let Some(tid) = tid else { return };
    if verbose() {
        eprintln!("    T{tid} {ev:?}");
    }
    let pending = match ev {
        Event::Lock { class, mode, addr, probe } => Pending::Lock {
            class,
            mode: *mode,
            addr: *addr,
            probe: *probe,
        },
        Event::MmapWrite { file, .. } => Pending::Step(match file {
            rawdb::verif::FileKind::Data => "data_write",
            rawdb::verif::FileKind::Regions => "slot_write",
        }),
        Event::MmapWritten { .. } => Pending::Step("data_written"),
        Event::SetLen { .. } => Pending::Step("set_len"),
        // a sync changes durability only, and the point after the data copy of write_with
        // is immediately followed by a lock request
        Event::SyncBegin { .. } | Event::Point("write_with:after_data") => return,
        Event::Punch { .. } => Pending::Step("punch"),
        Event::Atomic { store: true, .. } => Pending::Step("publish_len"),
        Event::Point(p) => Pending::Step(p),
        Event::BgSleep => Pending::Step("bg_sleep"),
        Event::Join { token } => Pending::Join { token: *token },
        Event::Spawned { token } => {
            ctl.wait_registered(*token);
            Pending::Step("spawned")
        }
        // pure reads of shared state and hints: no scheduling point (DESIGN 3.4)
        Event::Access { .. }
        | Event::Atomic { store: false, .. }
        | Event::FlushAsync { .. }
        | Event::SyncEnd { .. }
        | Event::ThreadStart { .. }
        | Event::ThreadEnd { .. } => return,
    };
    ctl.point(tid, pending);
}
