//! chessx — stateless exploration of thread schedules of small programs on the real code
//! (C09, C10, C11, schedule part of C12, thread part of C18).

use std::{
    collections::{BTreeMap, HashSet},
    panic::{AssertUnwindSafe, catch_unwind},
    path::{Path, PathBuf},
    sync::Arc,
    time::{Duration, Instant},
};

use rawdb::Database;
use serde_json::json;
use vecdb::{
    AnyStoredVec, AnyVec, BytesVec, ImportOptions, ImportableVec, LZ4Vec, PcoVec,
    ReadableCloneableVec, ReadableVec, StoredVec, Stamp, Version, WritableVec, ZeroCopyVec,
};

use crate::{
    chess::{Aborted, Ctl, PointRec, Verdict},
    rawx::{layout_problems, snapshot},
    report::{KnownFindings, Run},
    scratch::Scratch,
    seqx::{Disposition, Found, Violation, hash64, last_panic_loc, panic_msg},
};

/// What one thread of a program does; returns its observations.
pub type Body = Box<dyn FnOnce(&World) -> Vec<String> + Send>;

pub struct World {
    pub dir: PathBuf,
    pub db: Database,
}

pub struct Program {
    /// property charged when a thread of this program panics
    pub panic_property: &'static str,
    /// situation class put in front of panic signatures
    pub class: &'static str,
    pub name: String,
    /// machine-readable description from which `program_from_spec` rebuilds the program
    pub spec: String,
    /// schedule at lock requests only (deadlock search)
    pub locks_only: bool,
    pub setup: Box<dyn Fn(&Path) -> World + Sync>,
    /// (thread name, body) per execution
    pub bodies: Box<dyn Fn(&World) -> Vec<(String, Body)> + Sync>,
    /// judges one execution: (thread results, world) -> violations
    pub check: Box<dyn Fn(&World, &[Result<Vec<String>, String>]) -> Vec<(String, String, String)> + Sync>,
}

pub struct Execution {
    pub trace: Vec<PointRec>,
    pub verdict: Verdict,
    pub results: Vec<Result<Vec<String>, String>>,
    pub violations: Vec<(String, String, String)>,
    pub outcome: u64,
}

pub fn run_once(p: &Program, prefix: &[u16], writer_preference: bool, dir: &Path) -> Execution {
    let world = (p.setup)(dir);
    let bodies = (p.bodies)(&world);
    let names: Vec<String> = bodies.iter().map(|(n, _)| n.clone()).collect();
    let n = bodies.len();
    let ctl = Ctl::new(n, prefix.to_vec(), writer_preference, p.locks_only, &names);
    ctl.install();
    let mut results: Vec<Result<Vec<String>, String>> = Vec::new();
    std::thread::scope(|s| {
        let mut handles = Vec::new();
        for (i, (_, body)) in bodies.into_iter().enumerate() {
            let ctl = ctl.clone();
            let world = &world;
            handles.push(s.spawn(move || {
                let r = catch_unwind(AssertUnwindSafe(|| {
                    ctl.enter(i);
                    body(world)
                }));
                let out = match r {
                    Ok(v) => Ok(v),
                    Err(p) => {
                        if p.downcast_ref::<Aborted>().is_some() {
                            Err("aborted".to_string())
                        } else {
                            Err(format!("panic:{}: {}", last_panic_loc(), panic_msg(&p)))
                        }
                    }
                };
                ctl.finish(i);
                out
            }));
        }
        ctl.start();
        // watchdog: the controller must keep making decisions
        let t0 = Instant::now();
        loop {
            if handles.iter().all(|h| h.is_finished()) {
                break;
            }
            std::thread::sleep(Duration::from_micros(200));
            if ctl.stalled_for() > Duration::from_secs(8) && t0.elapsed() > Duration::from_secs(8) {
                eprintln!("MACHINERY-ERROR: chess controller stalled: {}", ctl.describe());
                ctl.abort_now("controller stalled (a thread blocked outside the model)");
                std::thread::sleep(Duration::from_secs(3));
                if !handles.iter().all(|h| h.is_finished()) {
                    eprintln!("MACHINERY-ERROR: threads stay blocked for real; giving up");
                    std::process::exit(3);
                }
            }
        }
        for h in handles {
            results.push(h.join().unwrap_or_else(|_| Err("join failed".into())));
        }
    });
    Ctl::uninstall();
    let (trace, verdict) = ctl.result();
    let mut violations = Vec::new();
    if verdict.deadlock.is_none() && !verdict.horizon && verdict.divergence.is_none() {
        violations = (p.check)(&world, &results);
        for (i, r) in results.iter().enumerate() {
            if let Err(e) = r {
                if e.starts_with("panic:") {
                    let loc = e.trim_start_matches("panic:").split(": ").next().unwrap_or("?").to_string();
                    violations.push((p.panic_property.into(), format!("{}|panic|{loc}", p.class), format!("thread {} panicked: {e}", names[i])));
                }
            }
        }
    }
    let outcome = hash64(&(format!("{results:?}"), verdict.deadlock.is_some()));
    drop(world);
    Execution {
        trace,
        verdict,
        results,
        violations,
        outcome,
    }
}

#[derive(Default)]
pub struct Stats {
    pub executions: u64,
    pub points: u64,
    pub max_points: usize,
    pub outcomes: HashSet<u64>,
    pub deadlocks: u64,
    pub capped: bool,
    /// execution index (within its program) of the first violating schedule found
    pub first_found_at: Option<u64>,
}

pub struct FoundSched {
    pub program: String,
    pub spec: String,
    pub writer_preference: bool,
    pub property: String,
    pub signature: String,
    pub detail: String,
    pub schedule: Vec<u16>,
    pub steps: Vec<String>,
}

/// Depth-first exploration of all schedules with at most `bound` pre-emptions.
#[allow(clippy::too_many_arguments)]
pub fn explore(
    p: &Program,
    bound: usize,
    writer_preference: bool,
    root: &Scratch,
    stats: &mut Stats,
    found: &mut Vec<FoundSched>,
    deadline: Instant,
    max_execs: u64,
) {
    let mut stack: Vec<Vec<u16>> = vec![vec![]];
    let mut seen_sig: HashSet<String> = HashSet::new();
    let start_execs = stats.executions;
    while let Some(prefix) = stack.pop() {
        if Instant::now() > deadline || stats.executions - start_execs >= max_execs {
            stats.capped = true;
            return;
        }
        let dir = root.sub("x");
        let x = run_once(p, &prefix, writer_preference, &dir);
        stats.executions += 1;
        stats.points += x.trace.len() as u64;
        stats.max_points = stats.max_points.max(x.trace.len());
        stats.outcomes.insert(x.outcome ^ hash64(&p.name));
        let choices: Vec<u16> = x.trace.iter().map(|t| t.chosen as u16).collect();
        let steps = || -> Vec<String> { x.trace.iter().map(|t| t.what.clone()).collect() };
        if let Some(d) = &x.verdict.divergence {
            found.push(FoundSched {
                program: p.name.clone(),
                spec: p.spec.clone(),
                writer_preference,
                property: "MACHINERY".into(),
                signature: format!("divergence:{d}"),
                detail: d.clone(),
                schedule: choices.clone(),
                steps: steps(),
            });
            continue;
        }
        if let Some(d) = &x.verdict.deadlock {
            stats.deadlocks += 1;
            stats.first_found_at.get_or_insert(stats.executions - start_execs);
            // signature: the set of (wanted lock, held locks) edges, without thread ids
            let mut parts: Vec<String> = d
                .split("] ")
                .filter(|s| !s.is_empty())
                .map(|s| {
                    let s = s.trim_start_matches('[');
                    let waits = s.split(" waits for ").nth(1).unwrap_or("");
                    // background-thread tokens are process-wide counters: not part of a signature
                    let s = waits.replace("last acquired: ", "holding ");
                    let mut out = String::with_capacity(s.len());
                    let mut it = s.chars().peekable();
                    while let Some(c) = it.next() {
                        out.push(c);
                        if c == 'g' && out.ends_with("join(bg") {
                            while it.peek().is_some_and(|d| d.is_ascii_digit()) {
                                it.next();
                            }
                        }
                    }
                    out
                })
                .collect();
            parts.sort();
            let sig = format!("deadlock|{}", parts.join(" & "));
            if seen_sig.insert(sig.clone()) {
                found.push(FoundSched {
                    program: p.name.clone(),
                    spec: p.spec.clone(),
                    writer_preference,
                    // C09 also promises that no read blocks forever
                    property: if p.panic_property.contains("C09") { "C11,C09".into() } else { "C11".into() },
                    signature: sig,
                    detail: d.clone(),
                    schedule: choices.clone(),
                    steps: steps(),
                });
            }
        }
        if x.verdict.horizon {
            found.push(FoundSched {
                program: p.name.clone(),
                spec: p.spec.clone(),
                writer_preference,
                property: "C11".into(),
                signature: "horizon|no_quiescence".into(),
                detail: "execution did not finish within the step horizon (livelock?)".into(),
                schedule: choices.clone(),
                steps: steps(),
            });
        }
        for (prop, sig, detail) in &x.violations {
            let s = format!("{prop}|{sig}");
            if seen_sig.insert(s) {
                found.push(FoundSched {
                    program: p.name.clone(),
                    spec: p.spec.clone(),
                    writer_preference,
                    property: prop.clone(),
                    signature: sig.clone(),
                    detail: detail.clone(),
                    schedule: choices.clone(),
                    steps: steps(),
                });
            }
        }
        // branch: alternatives at every point behind the prefix
        let mut pre = 0usize;
        for (i, t) in x.trace.iter().enumerate() {
            if i >= prefix.len() {
                for alt in 0..t.enabled.len() {
                    if alt == t.chosen {
                        continue;
                    }
                    let cost = pre + usize::from(t.running_still_enabled && alt != 0);
                    if cost > bound {
                        continue;
                    }
                    let mut np = choices[..i].to_vec();
                    np.push(alt as u16);
                    stack.push(np);
                }
            }
            if t.running_still_enabled && t.chosen != 0 {
                pre += 1;
            }
        }
    }
}

// ---------------------------------------------------------------------------------------
// region-level operation catalogue (C10, C11, C12)
// ---------------------------------------------------------------------------------------

#[derive(Clone, Copy, Debug, PartialEq, Eq, Hash, PartialOrd, Ord)]
pub enum COp {
    WriteFits,
    /// append beyond the reservation: the region has a neighbour, so it relocates
    Relocate,
    /// append > 1 MiB: relocation to the end plus file growth (mmap + file write locks)
    GrowFile,
    /// append beyond the reservation of the region that is last in the file: it grows in
    /// place (the thread switches to the dedicated region "last")
    ExtendLast,
    /// append beyond the reservation of a region that is directly followed by a hole large
    /// enough for the added reservation: it expands into the hole (the thread switches to
    /// the dedicated region "hx")
    ExpandHole,
    /// the same, but the hole is the last thing in the file and is used up entirely (the
    /// thread switches to the dedicated region "hy")
    ExpandTail,
    Truncate,
    Rename,
    Remove,
    Create,
    RegionFlush,
    Flush,
    Compact,
    BgCompact,
    Reader,
    DiskUsage,
    SetMinRegions,
}

pub const ALL_COPS: [COp; 17] = [
    COp::WriteFits,
    COp::Relocate,
    COp::GrowFile,
    COp::ExtendLast,
    COp::ExpandHole,
    COp::ExpandTail,
    COp::Truncate,
    COp::Rename,
    COp::Remove,
    COp::Create,
    COp::RegionFlush,
    COp::Flush,
    COp::Compact,
    COp::BgCompact,
    COp::Reader,
    COp::DiskUsage,
    COp::SetMinRegions,
];

fn pattern(k: usize, from: usize, len: usize) -> Vec<u8> {
    (from..from + len).map(|o| 1 + ((k * 67 + o + o / 251) % 255) as u8).collect()
}

/// Names the way `got` differs from `want`, of which the bytes from `fresh_from` on were
/// written by the operation that just returned (situation class of finding signatures).
fn diff_class(got: &[u8], want: &[u8], fresh_from: usize) -> &'static str {
    if got.len() != want.len() {
        return "length differs";
    }
    let diffs: Vec<usize> = (0..got.len()).filter(|&i| got[i] != want[i]).collect();
    if diffs.iter().all(|&i| got[i] == 0) {
        if diffs.iter().all(|&i| i >= fresh_from) { "just-written bytes read back as zeros" } else { "older bytes read back as zeros" }
    } else {
        "foreign bytes"
    }
}

/// Executes `op` on thread k's own region; `model` is the thread-private expected content.
fn run_cop(w: &World, k: usize, op: COp, model: &mut Option<Vec<u8>>, name: &mut String, verify: bool) -> Result<String, String> {
    let e = |x: rawdb::Error| format!("{x:?}").split([' ', '(', '{']).next().unwrap_or("").to_string();
    if op == COp::ExtendLast && name != "last" {
        *name = "last".to_string();
        *model = Some(pattern(30, 0, 100));
    }
    if op == COp::ExpandHole && name != "hx" {
        *name = "hx".to_string();
        *model = Some(pattern(31, 0, 100));
    }
    if op == COp::ExpandTail && name != "hy" {
        *name = "hy".to_string();
        *model = Some(pattern(33, 0, 100));
    }
    let fresh_from = model.as_ref().map_or(0, |m| m.len());
    let region = || w.db.get_region(name).ok_or_else(|| "region missing".to_string());
    let needs_region = !matches!(
        op,
        COp::Create | COp::Flush | COp::Compact | COp::BgCompact | COp::DiskUsage | COp::SetMinRegions
    );
    if model.is_none() && needs_region {
        return Ok("skipped (own region removed)".into());
    }
    match op {
        COp::ExtendLast => {
            let r = region()?;
            let m = model.as_mut().ok_or("no model")?;
            let mut at = m.len();
            // bytes of the dedicated region follow pattern 30
            let d = pattern(30, at, 5000);
            r.write(&d).map_err(e)?;
            m.extend_from_slice(&d);
            at += 5000;
            let _ = at;
        }
        COp::ExpandTail => {
            let r = region()?;
            let m = model.as_mut().ok_or("no model")?;
            let d = pattern(33, m.len(), 5000);
            r.write(&d).map_err(e)?;
            m.extend_from_slice(&d);
        }
        COp::ExpandHole => {
            let r = region()?;
            let m = model.as_mut().ok_or("no model")?;
            let d = pattern(31, m.len(), 5000);
            r.write(&d).map_err(e)?;
            m.extend_from_slice(&d);
        }
        COp::WriteFits | COp::Relocate | COp::GrowFile => {
            let n = match op {
                COp::WriteFits => 10,
                COp::Relocate => 5000,
                _ => 1_100_000,
            };
            let r = region()?;
            let m = model.as_mut().ok_or("no model")?;
            let d = pattern(k, m.len(), n);
            r.write(&d).map_err(e)?;
            m.extend_from_slice(&d);
        }
        COp::Truncate => {
            let r = region()?;
            let m = model.as_mut().ok_or("no model")?;
            let to = m.len() / 2;
            r.truncate(to).map_err(e)?;
            m.truncate(to);
        }
        COp::Rename => {
            let r = region()?;
            let new = format!("{name}_renamed");
            r.rename(&new).map_err(e)?;
            *name = new;
        }
        COp::Remove => {
            w.db.remove_region(name).map_err(e)?;
            *model = None;
        }
        COp::Create => {
            let n = format!("new{k}");
            let r = w.db.create_region_if_needed(&n).map_err(e)?;
            let d = pattern(k + 7, 0, 300);
            r.write(&d).map_err(e)?;
            let back = r.create_reader().read_all().to_vec();
            if back != d {
                return Err(format!("{}: created region does not read back its own bytes", diff_class(&back, &d, 0)));
            }
        }
        COp::RegionFlush => {
            // something to flush, so that the call takes its full locking path
            let r = region()?;
            if let Some(m) = model.as_mut() {
                let d = pattern(k, m.len(), 7);
                r.write(&d).map_err(e)?;
                m.extend_from_slice(&d);
            }
            r.flush().map_err(e)?;
        }
        COp::Flush | COp::Compact => {
            // a dirty region, so that flush() takes its full path (a flush with nothing dirty
            // returns early)
            if let (Some(m), Ok(r)) = (model.as_mut(), region()) {
                let d = pattern(k, m.len(), 7);
                r.write(&d).map_err(e)?;
                m.extend_from_slice(&d);
            }
            if op == COp::Flush {
                w.db.flush().map_err(e)?;
            } else {
                w.db.compact().map_err(e)?;
            }
        }
        COp::BgCompact => {
            w.db.run_bg(|db| db.compact_deferred(Duration::from_millis(1)));
            w.db.sync_bg_tasks().map_err(e)?;
        }
        COp::Reader => {
            let r = region()?;
            let reader = r.create_reader();
            let got = reader.read_all().to_vec();
            drop(reader);
            if let Some(m) = model {
                if &got != m {
                    return Err(format!("{}: reader returned {} bytes that differ from the region's own {} bytes", diff_class(&got, m, m.len()), got.len(), m.len()));
                }
            }
        }
        COp::DiskUsage => {
            w.db.disk_usage().map_err(e)?;
        }
        COp::SetMinRegions => w.db.set_min_regions(12).map_err(e)?,
    }
    // after each of its own operations a thread compares its region with its private model
    if !verify {
        return Ok(format!("{op:?}"));
    }
    if let Some(m) = model {
        if let Some(r) = w.db.get_region(name) {
            let got = r.create_reader().read_all().to_vec();
            if &got != m {
                let first = got.iter().zip(m.iter()).position(|(a, b)| a != b).unwrap_or(got.len().min(m.len()));
                return Err(format!(
                    "{}: after {op:?}: region '{name}' has {} bytes, expected {}, first difference at {first} (got {:?})",
                    diff_class(&got, m, fresh_from),
                    got.len(),
                    m.len(),
                    got.get(first)
                ));
            }
        } else {
            return Err(format!("region disappeared: after {op:?}: region '{name}' disappeared"));
        }
    }
    Ok(format!("{op:?}"))
}

/// Regions t0,x0,t1,x1,... (100 bytes each, flushed): every t{k} has a neighbour behind it.
/// With `hole`: additionally hx (100 bytes, one page reserved) directly followed by a flushed
/// 8 KiB hole.
/// With `tail`: additionally hy (one page reserved) as the last region, followed by a flushed
/// one-page hole that ends the file (and no other hole, so that new regions go to the end).
fn region_world(dir: &Path, n_threads: usize, hole: bool, tail: bool) -> World {
    let db = Database::open(dir).expect("open");
    for k in 0..n_threads {
        let r = db.create_region_if_needed(&format!("t{k}")).unwrap();
        r.write(&pattern(k, 0, 100)).unwrap();
        let x = db.create_region_if_needed(&format!("x{k}")).unwrap();
        x.write(&pattern(k + 40, 0, 100)).unwrap();
    }
    if hole {
        let hx = db.create_region_if_needed("hx").unwrap();
        hx.write(&pattern(31, 0, 100)).unwrap();
        let gap = db.create_region_if_needed("gap").unwrap();
        gap.write(&pattern(32, 0, 5000)).unwrap();
    }
    let last = db.create_region_if_needed("last").unwrap();
    last.write(&pattern(30, 0, 100)).unwrap();
    if tail {
        // behind everything else: hy (one page reserved) and a one-page hole that ends the file
        let hy = db.create_region_if_needed("hy").unwrap();
        hy.write(&pattern(33, 0, 100)).unwrap();
        let gapt = db.create_region_if_needed("gapt").unwrap();
        gapt.write(&pattern(34, 0, 100)).unwrap();
    }
    db.flush().unwrap();
    if hole {
        db.remove_region("gap").unwrap();
    }
    if tail {
        db.remove_region("gapt").unwrap();
    }
    if hole || tail {
        db.flush().unwrap();
    }
    World {
        dir: dir.to_path_buf(),
        db,
    }
}

pub fn region_program(ops: Vec<Vec<COp>>) -> Program {
    region_program_with(ops, true)
}

/// `verify`: every thread compares its region with its private model after each of its
/// operations (isolation oracle); without it the program only looks for deadlocks and
/// schedules at lock requests only.
pub fn region_program_with(ops: Vec<Vec<COp>>, verify: bool) -> Program {
    let n = ops.len();
    let name = ops
        .iter()
        .map(|t| t.iter().map(|o| format!("{o:?}")).collect::<Vec<_>>().join("+"))
        .collect::<Vec<_>>()
        .join(" || ");
    let ops2 = ops.clone();
    // which kinds of operation run concurrently (situation class of finding signatures)
    let mut flags: Vec<&str> = Vec::new();
    for (f, kinds) in [
        ("compact", &[COp::Compact, COp::BgCompact][..]),
        ("growth", &[COp::GrowFile][..]),
        ("extend_last", &[COp::ExtendLast][..]),
        ("expand_hole", &[COp::ExpandHole, COp::ExpandTail][..]),
        ("create", &[COp::Create][..]),
        ("remove", &[COp::Remove][..]),
        ("relocate", &[COp::Relocate][..]),
    ] {
        if ops.iter().flatten().any(|o| kinds.contains(o)) {
            flags.push(f);
        }
    }
    let class: &'static str = Box::leak(format!("{};", flags.join(";")).into_boxed_str());
    let with_hole = ops.iter().flatten().any(|o| *o == COp::ExpandHole);
    let with_tail = ops.iter().flatten().any(|o| *o == COp::ExpandTail);
    let spec = format!(
        "region:{verify}:{}",
        ops.iter().map(|t| t.iter().map(|o| format!("{o:?}")).collect::<Vec<_>>().join("+")).collect::<Vec<_>>().join("|")
    );
    Program {
        panic_property: "C10,C12",
        class,
        name,
        spec,
        locks_only: !verify,
        setup: Box::new(move |d| region_world(d, n, with_hole, with_tail)),
        bodies: Box::new(move |_w| {
            ops2.iter()
                .enumerate()
                .map(|(k, list)| {
                    let list = list.clone();
                    let body: Body = Box::new(move |w: &World| {
                        let mut model = Some(pattern(k, 0, 100));
                        let mut name = format!("t{k}");
                        let mut out = Vec::new();
                        for op in list {
                            match run_cop(w, k, op, &mut model, &mut name, verify) {
                                Ok(s) => out.push(s),
                                Err(e) => {
                                    // model and implementation disagree from here on
                                    out.push(format!("ERR {e}"));
                                    break;
                                }
                            }
                        }
                        out.push(format!("final:{}:{}", name, model.as_ref().map_or(0, |m| m.len())));
                        out
                    });
                    (format!("T{k}"), body)
                })
                .collect()
        }),
        check: Box::new(move |w, results| {
            let mut v = Vec::new();
            for (k, r) in results.iter().enumerate() {
                if let Ok(list) = r {
                    for l in list {
                        if let Some(e) = l.strip_prefix("ERR ") {
                            let kind = if e.contains("differ") || e.contains("expected") || e.contains("disappeared") || e.contains("read back") || e.contains("foreign bytes") {
                                "isolation"
                            } else {
                                "error"
                            };
                            let short: String = e.split(':').next().unwrap_or(e).chars().take(60).collect();
                            v.push(("C10,C12".to_string(), format!("{class}|{kind}|{short}"), format!("thread T{k}: {e}")));
                        }
                    }
                }
            }
            // quiescent point: neighbours untouched, extent invariants hold
            for k in 0..n {
                if let Some(x) = w.db.get_region(&format!("x{k}")) {
                    if x.create_reader().read_all() != &pattern(k + 40, 0, 100)[..] {
                        v.push(("C10,C12".into(), format!("{class}|isolation|bystander_region_changed"), format!("region x{k}, which no thread touches, changed")));
                    }
                } else {
                    v.push(("C10".into(), format!("{class}|isolation|bystander_region_lost"), format!("region x{k} disappeared")));
                }
            }
            let _ = w.db.flush();
            for (kind, d) in layout_problems(&snapshot(&w.db, &w.dir)) {
                v.push(("C10".into(), format!("{class}|quiescent_layout|{kind}"), d));
            }
            v
        }),
    }
}

// ---------------------------------------------------------------------------------------
// vector programs (C09)
// ---------------------------------------------------------------------------------------

#[derive(Clone, Copy, Debug)]
pub enum VFmt {
    Bytes,
    ZeroCopy,
    Pco,
    Lz4,
}

/// One writer (push k then write, `rounds` times) and `readers` reader threads on
/// read-only clones.
pub fn vec_program(fmt: VFmt, initial: usize, k: usize, rounds: usize, readers: usize, locks_only: bool) -> Program {
    vec_program_g(fmt, initial, k, rounds, readers, locks_only, false)
}

pub fn vec_program_g(fmt: VFmt, initial: usize, k: usize, rounds: usize, readers: usize, locks_only: bool, grower: bool) -> Program {
    vec_program_n(fmt, initial, k, rounds, readers, locks_only, grower, false)
}

/// `grower`: a further thread that makes the data file grow (it queues for the mmap and
/// file write locks) on a region of its own.
///
/// `neighbour`: another region is created directly behind the vector's data region after the
/// initial flush, so that growth beyond the reservation relocates the region instead of
/// extending it in place.
#[allow(clippy::too_many_arguments)]
pub fn vec_program_n(fmt: VFmt, initial: usize, k: usize, rounds: usize, readers: usize, locks_only: bool, grower: bool, neighbour: bool) -> Program {
    fn value(i: usize) -> u32 {
        (i as u32).wrapping_mul(2654435761) | 1
    }
    fn reader_body<R: ReadableVec<usize, u32> + Send + 'static>(ro: R, boxed: vecdb::ReadableBoxedVec<usize, u32>, which: usize) -> Body {
        Box::new(move |_w: &World| {
            let mut out = Vec::new();
            let mut last_len = 0usize;
            let mut check = |what: &str, from: usize, got: &[u32], out: &mut Vec<String>| {
                for (j, v) in got.iter().enumerate() {
                    if *v != value(from + j) {
                        out.push(format!("ERR {what}: element {} is {v}, the writer pushed {}", from + j, value(from + j)));
                        return;
                    }
                }
            };
            for round in 0..3 {
                let len = ro.len();
                if len < last_len {
                    out.push(format!("ERR length went backwards: {last_len} -> {len}"));
                }
                last_len = len;
                match (round + which) % 3 {
                    0 => {
                        let got = ro.collect_range_at(0, len);
                        if got.len() != len {
                            out.push(format!("ERR collect_range(0,{len}) returned {} elements", got.len()));
                        }
                        check("collect_range", 0, &got, &mut out);
                    }
                    1 => {
                        if len > 0 {
                            match ro.collect_one_at(len - 1) {
                                None => out.push(format!("ERR collect_one({}) returned nothing although len() was {len}", len - 1)),
                                Some(v) => check("collect_one", len - 1, &[v], &mut out),
                            }
                        }
                        let got = boxed.collect_dyn();
                        check("boxed.collect", 0, &got, &mut out);
                    }
                    _ => {
                        let got = ro.fold_range_at(0, len, Vec::new(), |mut a, x| {
                            a.push(x);
                            a
                        });
                        if got.len() != len {
                            out.push(format!("ERR fold_range(0,{len}) visited {} elements", got.len()));
                        }
                        check("fold_range", 0, &got, &mut out);
                    }
                }
                out.push(format!("len={len}"));
            }
            out
        })
    }
    // write regime of the first write (situation class for finding signatures)
    let p = 4096usize;
    let class: &'static str = match fmt {
        VFmt::Bytes | VFmt::ZeroCopy => {
            if (initial + k) * 4 + 32 <= 4096 {
                "raw:append_in_reserve"
            } else if (initial + k) * 4 > 1 << 20 {
                "raw:file_growth"
            } else if neighbour {
                "raw:relocates_region"
            } else {
                "raw:grows_region"
            }
        }
        // (shapes with a neighbour avoid the partial-page re-encode, finding F12)
        _ if neighbour && (initial % p == 0 || initial % p + k < p) => "compressed:relocates_region",
        _ => {
            if initial % p != 0 && initial % p + k >= p {
                "compressed:reencode_partial_page"
            } else if initial % p != 0 {
                "compressed:fast_raw_append"
            } else {
                "compressed:fresh_pages"
            }
        }
    };
    let name = format!(
        "vec {fmt:?} initial={initial} push {k} x{rounds}{} || {readers} reader(s){}",
        if neighbour { " (region has a neighbour)" } else { "" },
        if grower { " || file grower" } else { "" }
    );
    Program {
        panic_property: "C09",
        class,
        name,
        spec: format!("vec:{fmt:?}:{initial}:{k}:{rounds}:{readers}:{locks_only}:{grower}:{neighbour}"),
        locks_only,
        setup: Box::new(|d| World {
            dir: d.to_path_buf(),
            db: Database::open(d).expect("open"),
        }),
        bodies: Box::new(move |w| {
            macro_rules! build {
                ($ty:ty) => {{
                    let mut v: $ty = <$ty>::import(&w.db, "v", Version::ONE).expect("import");
                    for i in 0..initial {
                        v.push(value(i));
                    }
                    v.flush().expect("initial flush");
                    if neighbour {
                        let nb = w.db.create_region_if_needed("nb").expect("create nb");
                        nb.write(&pattern(11, 0, 100)).expect("write nb");
                        w.db.flush().expect("flush nb");
                    }
                    let mut bodies: Vec<(String, Body)> = Vec::new();
                    let clones: Vec<_> = (0..readers).map(|_| (v.read_only_clone(), v.read_only_boxed_clone())).collect();
                    let writer: Body = Box::new(move |_w: &World| {
                        let mut out = Vec::new();
                        let mut n = initial;
                        for _ in 0..rounds {
                            for _ in 0..k {
                                v.push(value(n));
                                n += 1;
                            }
                            match v.write() {
                                Ok(_) => out.push(format!("wrote {n}")),
                                Err(e) => out.push(format!("ERR write failed: {e:?}")),
                            }
                        }
                        out
                    });
                    bodies.push(("W".into(), writer));
                    for (i, (ro, boxed)) in clones.into_iter().enumerate() {
                        bodies.push((format!("R{i}"), reader_body(ro, boxed, i)));
                    }
                    if grower {
                        let g: Body = Box::new(|w: &World| {
                            let r = w.db.create_region_if_needed("g").expect("create g");
                            match r.write(&pattern(9, 0, 1_100_000)) {
                                Ok(()) => vec!["grown".into()],
                                Err(e) => vec![format!("ERR grow failed: {e:?}")],
                            }
                        });
                        bodies.push(("G".into(), g));
                    }
                    bodies
                }};
            }
            match fmt {
                VFmt::Bytes => build!(BytesVec<usize, u32>),
                VFmt::ZeroCopy => build!(ZeroCopyVec<usize, u32>),
                VFmt::Pco => build!(PcoVec<usize, u32>),
                VFmt::Lz4 => build!(LZ4Vec<usize, u32>),
            }
        }),
        check: Box::new(move |_w, results| {
            let mut v = Vec::new();
            for r in results.iter().flatten() {
                for l in r {
                    if let Some(e) = l.strip_prefix("ERR ") {
                        // the kind of divergence without indices and lengths
                        let short: String = e.split(':').next().unwrap_or(e).chars().filter(|c| !c.is_ascii_digit()).take(60).collect();
                        v.push(("C09".to_string(), format!("{class}|reader|{short}"), e.to_string()));
                    }
                }
            }
            v
        }),
    }
}

// ---------------------------------------------------------------------------------------
// drivers
// ---------------------------------------------------------------------------------------

pub struct Job {
    pub program: Program,
    pub bound: usize,
    pub writer_preference: bool,
    pub max_execs: u64,
}

pub fn run_jobs(run: &mut Run, kf: &KnownFindings, property: &str, jobs: Vec<Job>, wall: u64, label: &str) {
    let classify = kf.classifier(property);
    let root = Scratch::new("chessx");
    let deadline = Instant::now() + Duration::from_secs(wall);
    let mut stats = Stats::default();
    let mut found: Vec<FoundSched> = Vec::new();
    let mut per_program: BTreeMap<String, u64> = BTreeMap::new();
    let n_jobs = jobs.len();
    let mut done = 0usize;
    for j in jobs {
        let before = stats.executions;
        explore(&j.program, j.bound, j.writer_preference, &root, &mut stats, &mut found, deadline, j.max_execs);
        per_program.insert(
            format!("{} [bound {}, {}]", j.program.name, j.bound, if j.writer_preference { "writer-preferring" } else { "reader-preferring" }),
            stats.executions - before,
        );
        done += 1;
        if Instant::now() > deadline {
            stats.capped = true;
            break;
        }
    }
    eprintln!(
        "  [chessx {label}] programs={done}/{n_jobs} first_deadlock_at={:?} executions={} points={} outcomes={} deadlock_schedules={} capped={}",
        stats.first_found_at,
        stats.executions,
        stats.points,
        stats.outcomes.len(),
        stats.deadlocks,
        stats.capped
    );
    run.cov_add("states", stats.outcomes.len() as u64);
    run.cov_add("transitions", stats.points);
    run.cov_add("traces_validated_against_impl", stats.executions);
    run.cov_add("evaluations", stats.executions);
    run.cov_add("distinct_nontrivial", stats.outcomes.len() as u64);
    if stats.capped {
        run.cov("exhaustive", json!(false));
    } else if !run.coverage.contains_key("exhaustive") {
        run.cov("exhaustive", json!(true));
    }
    let mut e = run.coverage.remove("explorations").unwrap_or_else(|| json!([]));
    let shown: BTreeMap<&String, &u64> = per_program.iter().take(400).collect();
    e.as_array_mut().unwrap().push(json!({
        "label": format!("chessx/{label}"),
        "programs_completed": done,
        "programs_planned": n_jobs,
        "executions (schedules)": stats.executions,
        "scheduling_points": stats.points,
        "longest_execution_points": stats.max_points,
        "distinct_outcomes": stats.outcomes.len(),
        "executions_ending_in_deadlock": stats.deadlocks,
        "cap_hit": stats.capped,
        "executions_per_program": shown,
    }));
    run.cov("explorations", e);
    for f in found {
        let v = Violation {
            property: f.property.clone(),
            signature: f.signature.clone(),
            detail: format!("{} [program: {}]", f.detail, f.program),
        };
        let d = classify(&v);
        if d == Disposition::Ignore || d == Disposition::KnownForeign {
            continue;
        }
        if run.coverage.get("samples").and_then(|s| s.as_array()).map_or(0, |a| a.len()) < 3 {
            run.push_sample(json!({"exploration": format!("chessx/{label}"), "program": f.program, "schedule": f.steps.iter().take(40).collect::<Vec<_>>()}));
        }
        run.add_found(
            Found {
                path: f.schedule.clone(),
                shown: {
                    let mut s = vec![format!("engine=chessx program={}", f.program)];
                    s.extend(f.steps.iter().take(120).cloned());
                    s
                },
                violation: v,
                known: d == Disposition::Known,
            },
            json!({"engine": "chessx", "program": f.program, "spec": f.spec, "writer_preference": f.writer_preference, "schedule": f.schedule}),
        );
    }
    if run.coverage.get("samples").and_then(|s| s.as_array()).is_none_or(|a| a.is_empty()) {
        run.push_sample(json!({"exploration": format!("chessx/{label}"), "note": "schedules are lists of thread choices at scheduling points; see executions_per_program"}));
    }
    run.assumptions.extend([
        "chessx: sequentially consistent scheduler; scheduling points at every lock acquisition (layout, regions, mmap, file, region metadata, page index), data/slot write, length change, sync, punch, shared-length store, spawn/join and background sleep; pure reads are not points".to_string(),
        "chessx: dirty-bounds, background-task and header locks are leaf locks held without any scheduling point inside and are not modelled".to_string(),
        "chessx: pre-emption bounded depth-first search, canonical choice order (running thread first, then ascending ids); a cap that is hit is reported".to_string(),
    ]);
}

pub fn unused() {
    let _ = (ImportOptions::new, Stamp::new, Arc::new(0));
    fn _f<V: StoredVec + AnyStoredVec + AnyVec>() {}
}

fn parse_cop(s: &str) -> COp {
    *ALL_COPS.iter().find(|o| format!("{o:?}") == s).unwrap_or_else(|| panic!("unknown op {s}"))
}

pub fn plan(property: &str, tier: &str) -> Vec<Job> {
    let quick = tier == "quick";
    let mut jobs = Vec::new();
    // VERIF_CHESS="RegionFlush|Compact|GrowFile:2" (threads separated by '|', ops by '+',
    // bound after ':') replaces the plan — debugging only
    if let Ok(spec) = std::env::var("VERIF_CHESS") {
        let (progs, bound) = spec.rsplit_once(':').expect("prog:bound");
        let ops: Vec<Vec<COp>> = progs.split('|').map(|t| t.split('+').map(parse_cop).collect()).collect();
        return vec![Job {
            program: region_program_with(ops, property != "C11"),
            bound: bound.parse().expect("bound"),
            writer_preference: true,
            max_execs: 100_000,
        }];
    }
    let deadlock_only = property == "C11";
    let job = |ops: Vec<Vec<COp>>, bound: usize, wp: bool, max: u64| Job {
        program: region_program_with(ops, !deadlock_only),
        bound,
        writer_preference: wp,
        max_execs: max,
    };
    match property {
        "C11" => {
            // all unordered pairs of catalogue operations
            for (i, a) in ALL_COPS.iter().enumerate() {
                for b in ALL_COPS.iter().skip(i) {
                    jobs.push(job(vec![vec![*a], vec![*b]], if quick { 1 } else { 2 }, true, if quick { 2000 } else { 20000 }));
                }
            }
            // vector level: writer against readers through the page-index and mmap locks
            for fmt in [VFmt::Pco, VFmt::Bytes] {
                jobs.push(Job {
                    program: vec_program(fmt, 10, 5000, 1, 1, true),
                    bound: if quick { 1 } else { 2 },
                    writer_preference: true,
                    max_execs: if quick { 300 } else { 20000 },
                });
            }
            if !quick {
                // triples: a pair of operations that hold one lock across another acquisition
                // plus one operation that queues a writer
                let heavy = [COp::RegionFlush, COp::Compact, COp::BgCompact, COp::Flush, COp::Reader, COp::ExpandHole];
                let queuers = [COp::GrowFile, COp::Create, COp::Remove, COp::Rename];
                for (i, a) in heavy.iter().enumerate() {
                    for b in heavy.iter().skip(i) {
                        for c in queuers {
                            jobs.push(job(vec![vec![*a], vec![*b], vec![c]], 2, true, 30000));
                        }
                    }
                }
                // the same pairs under a reader-preferring lock model
                for (i, a) in ALL_COPS.iter().enumerate() {
                    for b in ALL_COPS.iter().skip(i) {
                        jobs.push(job(vec![vec![*a], vec![*b]], 1, false, 2000));
                    }
                }
                for a in ALL_COPS {
                    for b in ALL_COPS {
                        for c in queuers {
                            jobs.push(job(vec![vec![a], vec![b], vec![c]], 1, true, 3000));
                        }
                    }
                }
            } else {
                // quick: three-party shapes at bound 1 (complete) ...
                for (a, b, c) in [
                    (COp::RegionFlush, COp::Compact, COp::GrowFile),
                    (COp::Reader, COp::Compact, COp::GrowFile),
                    (COp::Flush, COp::Compact, COp::Create),
                    (COp::ExpandHole, COp::Flush, COp::Create),
                    (COp::ExpandHole, COp::Compact, COp::GrowFile),
                    // an operation that takes a region's metadata write lock, a flush that
                    // reads every region's metadata under the regions lock, a queued regions writer
                    (COp::Truncate, COp::Flush, COp::Create),
                    (COp::Rename, COp::Flush, COp::Create),
                    (COp::WriteFits, COp::Flush, COp::Rename),
                ] {
                    jobs.push(job(vec![vec![a], vec![b], vec![c]], 1, true, 600));
                }
                // ... and the two shapes in which three parties can wait in a cycle at bound 2,
                // under an execution cap (the evidence reports the cap)
                jobs.push(job(vec![vec![COp::RegionFlush], vec![COp::Compact], vec![COp::GrowFile]], 2, true, 1200));
                jobs.push(Job {
                    program: vec_program_g(VFmt::Pco, 10, 5000, 1, 1, true, true),
                    bound: 2,
                    writer_preference: true,
                    max_execs: 1200,
                });
            }
            if !quick {
                for fmt in [VFmt::Pco, VFmt::Lz4, VFmt::Bytes] {
                    jobs.push(Job {
                        program: vec_program_g(fmt, 10, 5000, 1, 1, true, true),
                        bound: 2,
                        writer_preference: true,
                        max_execs: 40000,
                    });
                }
            }
        }
        "C10" => {
            let writers = [COp::WriteFits, COp::Relocate, COp::GrowFile, COp::Truncate, COp::Create, COp::Remove, COp::Rename];
            for (i, a) in writers.iter().enumerate() {
                for b in writers.iter().skip(i) {
                    jobs.push(job(vec![vec![*a, COp::Reader], vec![*b, COp::Reader]], if quick { 1 } else { 2 }, true, if quick { 150 } else { 5000 }));
                }
            }
            // the last region grows in place while others allocate at the end of the file
            for b in [COp::Create, COp::Relocate, COp::GrowFile, COp::Remove] {
                jobs.push(job(vec![vec![COp::ExtendLast, COp::Reader], vec![b, COp::Reader]], if quick { 2 } else { 3 }, true, if quick { 600 } else { 20000 }));
            }
            // a region expands into the hole behind it while others allocate, flush or compact
            for b in [COp::Create, COp::Relocate, COp::Flush, COp::Compact] {
                jobs.push(job(vec![vec![COp::ExpandHole, COp::Reader], vec![b, COp::Reader]], if quick { 1 } else { 3 }, true, if quick { 300 } else { 20000 }));
            }
            // ... and into the hole that ends the file, which it uses up entirely
            for b in [COp::Create, COp::Relocate] {
                jobs.push(job(vec![vec![COp::ExpandTail, COp::Reader], vec![b, COp::Reader]], if quick { 1 } else { 3 }, true, if quick { 300 } else { 20000 }));
            }
            for a in [COp::Relocate, COp::GrowFile] {
                for b in [COp::Flush, COp::Compact, COp::RegionFlush] {
                    jobs.push(job(vec![vec![a, COp::WriteFits], vec![b], vec![COp::Create, COp::WriteFits]], if quick { 1 } else { 2 }, true, if quick { 200 } else { 5000 }));
                }
            }
        }
        "C12" => {
            for a in [COp::WriteFits, COp::Relocate, COp::Truncate, COp::Remove, COp::Create, COp::ExpandHole] {
                jobs.push(job(vec![vec![COp::Compact], vec![a, COp::WriteFits]], if quick { 2 } else { 3 }, true, if quick { 400 } else { 20000 }));
                if !quick {
                    jobs.push(job(vec![vec![COp::Compact], vec![a, COp::WriteFits], vec![COp::WriteFits, COp::WriteFits]], 2, true, 20000));
                }
            }
        }
        "C09" => {
            let p = 4096;
            // vectors whose data region has to relocate when it grows
            let reloc: Vec<(VFmt, usize, usize, usize)> = if quick {
                vec![(VFmt::Bytes, 1000, 2000, 1), (VFmt::Pco, p, 2 * p, 1)]
            } else {
                vec![
                    (VFmt::Bytes, 1000, 2000, 1),
                    (VFmt::Bytes, 1000, 2000, 2),
                    (VFmt::ZeroCopy, 1000, 2000, 1),
                    (VFmt::Pco, p, 2 * p, 1),
                    (VFmt::Pco, 2 * p, p, 2),
                    (VFmt::Lz4, p, 2 * p, 1),
                ]
            };
            for (fmt, initial, k, readers) in reloc {
                jobs.push(Job {
                    program: vec_program_n(fmt, initial, k, 1, readers, false, false, true),
                    bound: if quick { 2 } else { 3 },
                    writer_preference: true,
                    max_execs: if quick { 500 } else { 30000 },
                });
            }
            let shapes: Vec<(VFmt, usize, usize, usize, usize)> = if quick {
                vec![
                    (VFmt::Bytes, 3, 2, 2, 1),
                    (VFmt::Bytes, 1000, 2000, 1, 1),
                    (VFmt::Pco, 10, 5, 2, 1),
                    (VFmt::Pco, p - 3, 3, 1, 1),
                    (VFmt::Pco, p - 3, 5, 1, 1),
                ]
            } else {
                vec![
                    (VFmt::Bytes, 3, 2, 2, 1),
                    (VFmt::Bytes, 1000, 2000, 1, 1),
                    (VFmt::Bytes, 3, 300_000, 1, 1),
                    (VFmt::ZeroCopy, 3, 2, 2, 1),
                    (VFmt::ZeroCopy, 1000, 2000, 1, 2),
                    (VFmt::Pco, 10, 5, 2, 1),
                    (VFmt::Pco, p - 3, 3, 1, 1),
                    (VFmt::Pco, p - 3, 5, 1, 2),
                    (VFmt::Pco, 10, 2 * p, 1, 1),
                    (VFmt::Lz4, 10, 5, 2, 1),
                    (VFmt::Lz4, p - 3, 3, 1, 1),
                    (VFmt::Bytes, 3, 2, 2, 2),
                ]
            };
            for (fmt, initial, k, rounds, readers) in shapes {
                jobs.push(Job {
                    program: vec_program(fmt, initial, k, rounds, readers, false),
                    bound: if quick { 2 } else { 3 },
                    writer_preference: true,
                    max_execs: if quick { 500 } else { 30000 },
                });
            }
        }
        _ => {}
    }
    jobs
}

// ---------------------------------------------------------------------------------------
// replay
// ---------------------------------------------------------------------------------------

pub fn program_from_spec(spec: &str) -> Option<Program> {
    let parts: Vec<&str> = spec.split(':').collect();
    match parts.first().copied()? {
        "region" => {
            let verify = parts.get(1)?.parse().ok()?;
            let ops: Vec<Vec<COp>> = parts.get(2)?.split('|').map(|t| t.split('+').map(parse_cop).collect()).collect();
            Some(region_program_with(ops, verify))
        }
        "vec" => {
            let fmt = match *parts.get(1)? {
                "Bytes" => VFmt::Bytes,
                "ZeroCopy" => VFmt::ZeroCopy,
                "Pco" => VFmt::Pco,
                "Lz4" => VFmt::Lz4,
                _ => return None,
            };
            let n = |i: usize| -> Option<usize> { parts.get(i)?.parse().ok() };
            let b = |i: usize| -> Option<bool> { parts.get(i)?.parse().ok() };
            Some(vec_program_n(fmt, n(2)?, n(3)?, n(4)?, n(5)?, b(6)?, b(7)?, b(8)?))
        }
        "open" => crate::openx::thread_programs(true).into_iter().map(|j| j.program).find(|p| p.spec == spec),
        _ => None,
    }
}

/// Re-executes one recorded schedule twice (the executions must agree) and reports what the
/// oracles say about it. `VERIF_CHESS_VERBOSE=1` prints every tap event with its thread.
pub fn replay(doc: &serde_json::Value) -> i32 {
    let r = &doc["replay"];
    let spec = r["spec"].as_str().unwrap_or("");
    let Some(p) = program_from_spec(spec) else {
        eprintln!("cannot rebuild program from spec '{spec}'");
        return 2;
    };
    let schedule: Vec<u16> = r["schedule"].as_array().map(|a| a.iter().map(|v| v.as_u64().unwrap_or(0) as u16).collect()).unwrap_or_default();
    let wp = r["writer_preference"].as_bool().unwrap_or(true);
    let root = Scratch::new("chessx-replay");
    let mut outcomes = Vec::new();
    for _ in 0..2 {
        let x = run_once(&p, &schedule, wp, &root.sub("x"));
        let mut out: Vec<String> = Vec::new();
        if let Some(d) = &x.verdict.divergence {
            eprintln!("MACHINERY-ERROR: schedule diverges: {d}");
            return 3;
        }
        if let Some(d) = &x.verdict.deadlock {
            out.push(format!("C11: deadlock {d}"));
        }
        for (prop, sig, detail) in &x.violations {
            out.push(format!("{prop}: {sig}: {detail}"));
        }
        out.sort();
        outcomes.push(out);
    }
    println!("program: {} (spec {spec})", p.name);
    crate::finish_replay(doc, doc["property"].as_str().unwrap_or("?"), outcomes)
}
