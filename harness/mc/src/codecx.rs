//! codecx — on-disk codecs: round trip of every valid value at and around the limits,
//! and rejection (never a panic, never an allocation beyond the input) of truncated or
//! mutated encodings (C17).

use std::{
    alloc::{GlobalAlloc, Layout, System},
    collections::BTreeMap,
    fs,
    sync::atomic::{AtomicUsize, Ordering},
};

use rawdb::{Database, PAGE_SIZE, RegionMetadata};
use serde_json::json;
use vecdb::{
    AnyStoredVec, Bytes, BytesVec, CompressionStrategy, ImportableVec, LZ4Strategy, PcodecStrategy,
    Stamp, Version, WritableVec, ZstdStrategy,
};

use crate::{
    report::{KnownFindings, Run},
    scratch::Scratch,
    seqx::{Disposition, Found, Violation, guarded, hash64},
};

// ---------------------------------------------------------------------------------------
// counting allocator (peak bytes requested while armed)
// ---------------------------------------------------------------------------------------

pub struct Counting;
static CURRENT: AtomicUsize = AtomicUsize::new(0);
static PEAK: AtomicUsize = AtomicUsize::new(0);

unsafe impl GlobalAlloc for Counting {
    unsafe fn alloc(&self, l: Layout) -> *mut u8 {
        let c = CURRENT.fetch_add(l.size(), Ordering::Relaxed) + l.size();
        PEAK.fetch_max(c, Ordering::Relaxed);
        unsafe { System.alloc(l) }
    }
    unsafe fn dealloc(&self, p: *mut u8, l: Layout) {
        CURRENT.fetch_sub(l.size(), Ordering::Relaxed);
        unsafe { System.dealloc(p, l) }
    }
    unsafe fn realloc(&self, p: *mut u8, l: Layout, new: usize) -> *mut u8 {
        if new > l.size() {
            let c = CURRENT.fetch_add(new - l.size(), Ordering::Relaxed) + new - l.size();
            PEAK.fetch_max(c, Ordering::Relaxed);
        } else {
            CURRENT.fetch_sub(l.size() - new, Ordering::Relaxed);
        }
        unsafe { System.realloc(p, l, new) }
    }
}

/// Runs `f` and returns (result, peak additional bytes allocated while it ran).
fn measured<R>(f: impl FnOnce() -> R) -> (R, usize) {
    let base = CURRENT.load(Ordering::Relaxed);
    PEAK.store(base, Ordering::Relaxed);
    let r = f();
    let peak = PEAK.load(Ordering::Relaxed);
    (r, peak.saturating_sub(base))
}

// ---------------------------------------------------------------------------------------

struct Acc<'a> {
    run: &'a mut Run,
    classify: &'a (dyn Fn(&Violation) -> Disposition + Sync),
    decodes: u64,
    per_group: BTreeMap<&'static str, u64>,
    distinct: std::collections::HashSet<u64>,
    samples: usize,
}

impl<'a> Acc<'a> {
    fn count(&mut self, group: &'static str, input_hash: u64) {
        self.decodes += 1;
        *self.per_group.entry(group).or_default() += 1;
        self.distinct.insert(input_hash ^ hash64(&group));
    }
    fn viol(&mut self, group: &'static str, class: &str, div: &str, detail: String) {
        let v = Violation {
            property: "C17".into(),
            signature: format!("{group}|{class}|{div}"),
            detail: detail.clone(),
        };
        let d = (self.classify)(&v);
        if d == Disposition::Ignore {
            return;
        }
        self.run.add_found(
            Found {
                path: vec![],
                shown: vec![detail],
                violation: v,
                known: d == Disposition::Known,
            },
            json!({"engine": "codecx", "group": group}),
        );
    }
    fn sample(&mut self, v: serde_json::Value) {
        if self.samples < 8 {
            self.samples += 1;
            self.run.push_sample(v);
        }
    }
}

const U: usize = usize::MAX;
fn boundary() -> Vec<usize> {
    vec![
        0,
        1,
        4095,
        4096,
        4097,
        (1usize << 32) - 1,
        1usize << 32,
        (1usize << 32) + 1,
        1usize << 63,
        U - 4095,
        U,
    ]
}

fn encode_meta(start: usize, len: usize, reserved: usize, id_len: usize, id: &[u8]) -> Vec<u8> {
    let mut b = vec![0u8; PAGE_SIZE];
    b[0..8].copy_from_slice(&(start as u64).to_le_bytes());
    b[8..16].copy_from_slice(&(len as u64).to_le_bytes());
    b[16..24].copy_from_slice(&(reserved as u64).to_le_bytes());
    b[24..32].copy_from_slice(&(id_len as u64).to_le_bytes());
    let n = id.len().min(PAGE_SIZE - 32);
    b[32..32 + n].copy_from_slice(&id[..n]);
    b
}

fn meta_valid(start: usize, len: usize, reserved: usize, id_len: usize, id: &[u8]) -> bool {
    !(start == 0 && len == 0 && reserved == 0 && id_len == 0)
        && start % PAGE_SIZE == 0
        && reserved >= PAGE_SIZE
        && reserved % PAGE_SIZE == 0
        && len <= reserved
        && id_len <= 1024
        && std::str::from_utf8(&id[..id_len.min(id.len())]).is_ok()
}

/// Decodes one slot image and judges the outcome.
fn judge_meta(acc: &mut Acc, class: &str, bytes: &[u8], expect: Option<(usize, usize, usize, Vec<u8>)>) {
    acc.count("region_metadata", hash64(&bytes));
    let (r, peak) = measured(|| guarded(|| RegionMetadata::from_bytes(bytes)));
    if peak > 4 * bytes.len() + 65536 {
        acc.viol("region_metadata", class, "allocation", format!("decode allocated {peak} bytes for {} input bytes", bytes.len()));
    }
    match r {
        Err(p) => acc.viol(
            "region_metadata",
            class,
            &format!("panic:{}", p.split(": ").next().unwrap_or("?")),
            format!("from_bytes panicked: {p}"),
        ),
        Ok(Ok(m)) => {
            // whatever decodes must satisfy the validity rules
            let ok = m.start() % PAGE_SIZE == 0
                && m.reserved() >= PAGE_SIZE
                && m.reserved() % PAGE_SIZE == 0
                && m.len() <= m.reserved()
                && m.id().len() <= 1024;
            if !ok {
                acc.viol(
                    "region_metadata",
                    class,
                    "invalid_value_accepted",
                    format!("decoded start={} len={} reserved={} id_len={}", m.start(), m.len(), m.reserved(), m.id().len()),
                );
            }
            match expect {
                Some((s, l, r, id)) => {
                    if (m.start(), m.len(), m.reserved(), m.id().as_bytes()) != (s, l, r, &id[..]) {
                        acc.viol(
                            "region_metadata",
                            class,
                            "roundtrip",
                            format!("encoded ({s},{l},{r},{} id bytes) decoded ({},{},{},{} id bytes)", id.len(), m.start(), m.len(), m.reserved(), m.id().len()),
                        );
                    }
                }
                None if class.starts_with("invalid") => acc.viol(
                    "region_metadata",
                    class,
                    "invalid_encoding_accepted",
                    format!("decoded start={} len={} reserved={} id_len={}", m.start(), m.len(), m.reserved(), m.id().len()),
                ),
                None => {}
            }
        }
        Ok(Err(_)) => {
            if expect.is_some() {
                acc.viol("region_metadata", class, "valid_rejected", "a valid encoding was rejected".into());
            }
        }
    }
}

fn region_metadata(acc: &mut Acc, thorough: bool) {
    let names: Vec<(usize, Vec<u8>)> = {
        let mut v: Vec<(usize, Vec<u8>)> = Vec::new();
        for n in [0usize, 1, 2, 1023, 1024, 1025, 4064, 4065] {
            v.push((n, vec![b'n'; n.min(PAGE_SIZE - 32)]));
        }
        v.push((3, vec![0xff, 0xfe, 0x41])); // invalid UTF-8
        v.push((4, "é☃".as_bytes()[..4].to_vec())); // cut inside a multi-byte character
        v.push((5, "na\u{7}me".as_bytes().to_vec())); // control character
        v.push((6, "né€".as_bytes().to_vec()));
        v
    };
    for &start in &boundary() {
        for &len in &boundary() {
            for &reserved in &boundary() {
                for (id_len, id) in &names {
                    let bytes = encode_meta(start, len, reserved, *id_len, id);
                    let valid = meta_valid(start, len, reserved, *id_len, id);
                    let expect = valid.then(|| (start, len, reserved, id[..*id_len].to_vec()));
                    let class = if valid { "valid" } else { "invalid_fields" };
                    judge_meta(acc, class, &bytes, expect);
                }
            }
        }
    }
    acc.sample(json!({"group": "region_metadata", "encoding": "start=4096 len=4097 reserved=8192 id='nn'"}));
    // truncations and single-byte replacements of a valid encoding
    let base = encode_meta(8192, 100, 8192, 5, b"hello");
    for cut in [0usize, 1, 8, 31, 32, 33, 37, 4095] {
        judge_meta(acc, "truncated", &base[..cut], None);
    }
    let stride = if thorough { 1 } else { 97 };
    let mut off = 0;
    while off < PAGE_SIZE {
        for rep in [0x00u8, 0x01, 0x7f, 0x80, 0xff] {
            let mut b = base.clone();
            if b[off] == rep {
                continue;
            }
            b[off] = rep;
            judge_meta(acc, "mutated", &b, None);
        }
        off += if off < 64 { 1 } else { stride };
    }
    for field in 0..4 {
        for &val in &boundary() {
            let mut b = base.clone();
            b[field * 8..field * 8 + 8].copy_from_slice(&(val as u64).to_le_bytes());
            judge_meta(acc, "length_field", &b, None);
        }
    }
}

/// Encoder side: what the library writes into the regions file for real regions equals
/// the independent encoding.
fn region_metadata_encoder(acc: &mut Acc, root: &Scratch) {
    let dir = root.sub("enc");
    let r = guarded(|| -> Result<(), String> {
        let db = Database::open(&dir).map_err(|e| format!("{e:?}"))?;
        let long = "x".repeat(1024);
        let names = ["a", "né€", long.as_str()];
        for (i, n) in names.iter().enumerate() {
            let r = db.create_region_if_needed(n).map_err(|e| format!("{e:?}"))?;
            r.write(&vec![7u8; 1 + i * 5000]).map_err(|e| format!("{e:?}"))?;
        }
        db.flush().map_err(|e| format!("{e:?}"))?;
        let file = fs::read(dir.join("regions")).map_err(|e| e.to_string())?;
        for n in names {
            let r = db.get_region(n).unwrap();
            let m = r.meta();
            let want = encode_meta(m.start(), m.len(), m.reserved(), n.len(), n.as_bytes());
            let got = &file[r.index() * PAGE_SIZE..(r.index() + 1) * PAGE_SIZE];
            if got != &want[..] {
                return Err(format!("slot of region '{}' differs from the independent encoding", &n[..n.len().min(8)]));
            }
        }
        Ok(())
    });
    acc.count("region_metadata_encoder", 1);
    match r {
        Ok(Ok(())) => {}
        Ok(Err(e)) => acc.viol("region_metadata_encoder", "valid", "encoding", e),
        Err(p) => acc.viol("region_metadata_encoder", "valid", "panic", p),
    }
}

/// Regions::fill: every combination of k slots, each valid / zero / one garbage class.
fn regions_fill(acc: &mut Acc, root: &Scratch, max_slots: usize) {
    #[derive(Clone, Copy, PartialEq, Debug)]
    enum Slot {
        Valid,
        Zero,
        Unaligned,
        SmallReserve,
        LenOverReserve,
        LongName,
        HugeName,
        BadUtf8,
        AllOnes,
    }
    let kinds = [
        Slot::Valid,
        Slot::Zero,
        Slot::Unaligned,
        Slot::SmallReserve,
        Slot::LenOverReserve,
        Slot::LongName,
        Slot::HugeName,
        Slot::BadUtf8,
        Slot::AllOnes,
    ];
    let enc = |k: Slot, idx: usize| -> Vec<u8> {
        let start = idx * 8192;
        let name = format!("r{idx}");
        match k {
            Slot::Valid => encode_meta(start, 10 + idx, 8192, name.len(), name.as_bytes()),
            Slot::Zero => vec![0u8; PAGE_SIZE],
            Slot::Unaligned => encode_meta(start + 1, 10, 8192, name.len(), name.as_bytes()),
            Slot::SmallReserve => encode_meta(start, 10, 100, name.len(), name.as_bytes()),
            Slot::LenOverReserve => encode_meta(start, 9000, 8192, name.len(), name.as_bytes()),
            Slot::LongName => encode_meta(start, 10, 8192, 1025, &vec![b'z'; 1025]),
            Slot::HugeName => encode_meta(start, 10, 8192, 1 << 40, b"zz"),
            Slot::BadUtf8 => encode_meta(start, 10, 8192, 2, &[0xff, 0xff]),
            Slot::AllOnes => vec![0xffu8; PAGE_SIZE],
        }
    };
    for k in 1..=max_slots {
        let total = kinds.len().pow(k as u32);
        for code in 0..total {
            let mut c = code;
            let slots: Vec<Slot> = (0..k)
                .map(|_| {
                    let s = kinds[c % kinds.len()];
                    c /= kinds.len();
                    s
                })
                .collect();
            let dir = root.sub("fill");
            let mut regions = Vec::new();
            for (i, s) in slots.iter().enumerate() {
                regions.extend(enc(*s, i));
            }
            fs::write(dir.join("regions"), &regions).unwrap();
            let mut data = vec![0u8; k * 8192];
            for i in 0..k {
                for j in 0..8192 {
                    data[i * 8192 + j] = (i as u8) * 16 + 1 + (j % 13) as u8;
                }
            }
            fs::write(dir.join("data"), &data).unwrap();
            acc.count("regions_fill", hash64(&regions));
            let class = if slots.iter().all(|s| *s == Slot::Valid) {
                "all_valid"
            } else if slots.iter().any(|s| *s == Slot::Valid) {
                "mixed"
            } else {
                "no_valid"
            };
            let r = guarded(|| -> Result<Vec<(String, usize, usize, Vec<u8>)>, String> {
                let db = Database::open(&dir).map_err(|e| format!("open failed: {e:?}"))?;
                let regs: Vec<rawdb::Region> = db.regions().index_to_region().iter().flatten().cloned().collect();
                let mut out = Vec::new();
                for r in regs {
                    let (n, s, l) = {
                        let m = r.meta();
                        (m.id().to_string(), m.start(), m.len())
                    };
                    let b = r.create_reader().read_all().to_vec();
                    out.push((n, s, l, b));
                }
                out.sort();
                Ok(out)
            });
            let mut want: Vec<(String, usize, usize, Vec<u8>)> = slots
                .iter()
                .enumerate()
                .filter(|(_, s)| **s == Slot::Valid)
                .map(|(i, _)| (format!("r{i}"), i * 8192, 10 + i, data[i * 8192..i * 8192 + 10 + i].to_vec()))
                .collect();
            want.sort();
            match r {
                Err(p) => acc.viol(
                    "regions_fill",
                    class,
                    &format!("panic:{}", p.split(": ").next().unwrap_or("?")),
                    format!("open panicked on slots {slots:?}: {p}"),
                ),
                Ok(Err(e)) => acc.viol("regions_fill", class, "open_failed", format!("slots {slots:?}: {e}")),
                Ok(Ok(got)) => {
                    if got != want {
                        acc.viol(
                            "regions_fill",
                            class,
                            "wrong_regions",
                            format!(
                                "slots {slots:?}: open exposes {:?}, expected {:?}",
                                got.iter().map(|g| (&g.0, g.1, g.2)).collect::<Vec<_>>(),
                                want.iter().map(|g| (&g.0, g.1, g.2)).collect::<Vec<_>>()
                            ),
                        );
                    }
                }
            }
        }
    }
    acc.sample(json!({"group": "regions_fill", "slots": "[Valid, Unaligned, Zero]"}));
}

fn header_and_page(acc: &mut Acc, root: &Scratch) {
    let vals32: Vec<u32> = vec![0, 1, 2, 3, 255, 256, u32::MAX - 1, u32::MAX];
    let vals64: Vec<u64> = vec![0, 1, (1 << 32) - 1, 1 << 32, 1 << 63, u64::MAX];
    for &hv in &[0u32, 1, 2, 3, u32::MAX] {
        for &vv in &vals32 {
            for &cv in &[0u32, 7, u32::MAX] {
                for &st in &vals64 {
                    for fmt in 0u16..256 {
                        let mut b = vec![0u8; 32];
                        b[0..4].copy_from_slice(&hv.to_le_bytes());
                        b[4..8].copy_from_slice(&vv.to_le_bytes());
                        b[8..12].copy_from_slice(&cv.to_le_bytes());
                        b[12..20].copy_from_slice(&st.to_le_bytes());
                        b[20] = fmt as u8;
                        acc.count("header", hash64(&b));
                        let valid_fmt = matches!(fmt, 0 | 1 | 64 | 65 | 66);
                        match guarded(|| vecdb::verif::verif_header_from_bytes(&b)) {
                            Err(p) => acc.viol("header", "fields", "panic", p),
                            Ok(Ok(t)) => {
                                if !valid_fmt {
                                    acc.viol("header", "fields", "invalid_format_accepted", format!("format byte {fmt}"));
                                } else if t != (hv, vv, cv, st, fmt as u8) {
                                    acc.viol("header", "fields", "roundtrip", format!("{t:?} vs {:?}", (hv, vv, cv, st, fmt)));
                                }
                            }
                            Ok(Err(_)) => {
                                if valid_fmt {
                                    acc.viol("header", "fields", "valid_rejected", format!("{:?}", (hv, vv, cv, st, fmt)));
                                }
                            }
                        }
                    }
                }
            }
        }
    }
    for cut in 0..32 {
        let b = vec![1u8; cut];
        acc.count("header", hash64(&(b.len(), 77)));
        match guarded(|| vecdb::verif::verif_header_from_bytes(&b)) {
            Err(p) => acc.viol("header", "truncated", "panic", p),
            Ok(Ok(_)) => acc.viol("header", "truncated", "accepted", format!("{cut} bytes accepted")),
            Ok(Err(_)) => {}
        }
    }
    // encoder side through the public API: stamp / versions written by a real vector
    let dir = root.sub("hdr");
    let r = guarded(|| -> Result<(), String> {
        let db = Database::open(&dir).map_err(|e| format!("{e:?}"))?;
        let mut v: BytesVec<usize, u32> = BytesVec::import(&db, "h", Version::new(5)).map_err(|e| format!("{e:?}"))?;
        v.push(9);
        v.stamped_write(Stamp::new(0x0102_0304_0506_0708)).map_err(|e| format!("{e:?}"))?;
        let bytes = v.region().create_reader().read_all()[..32].to_vec();
        let t = vecdb::verif::verif_header_from_bytes(&bytes).map_err(|e| format!("{e:?}"))?;
        // raw formats add layer version 1 to the requested one
        if t.1 != 6 || t.3 != 0x0102_0304_0506_0708 || t.4 != 0 || t.0 != 2 {
            return Err(format!("header written by a real vector decodes to {t:?}"));
        }
        if bytes[21..].iter().any(|b| *b != 0) {
            return Err("padding bytes of the header are not zero".into());
        }
        Ok(())
    });
    acc.count("header_encoder", 1);
    match r {
        Ok(Ok(())) => {}
        Ok(Err(e)) => acc.viol("header_encoder", "valid", "encoding", e),
        Err(p) => acc.viol("header_encoder", "valid", "panic", p),
    }

    // page-index entries
    for &start in &vals64 {
        for &bytes in &vals32 {
            for &values in &[0u32, 1, 4095, 4096, 4097, (1 << 31) - 1] {
                for raw in [false, true] {
                    let enc = vecdb::verif::page_to_bytes(start, bytes, values, raw);
                    acc.count("page", hash64(&enc));
                    let mut want = [0u8; 16];
                    want[0..8].copy_from_slice(&start.to_le_bytes());
                    want[8..12].copy_from_slice(&bytes.to_le_bytes());
                    want[12..16].copy_from_slice(&(values | if raw { 1 << 31 } else { 0 }).to_le_bytes());
                    if enc != want {
                        acc.viol("page", "valid", "encoding", format!("{enc:?} vs {want:?}"));
                    }
                    match guarded(|| vecdb::verif::page_from_bytes(&enc)) {
                        Ok(Ok(t)) if t == (start, bytes, values, raw) => {}
                        other => acc.viol("page", "valid", "roundtrip", format!("{other:?}")),
                    }
                }
            }
        }
    }
    for cut in 0..16 {
        acc.count("page", cut as u64);
        match guarded(|| vecdb::verif::page_from_bytes(&vec![3u8; cut])) {
            Err(p) => acc.viol("page", "truncated", "panic", p),
            Ok(Ok(_)) => acc.viol("page", "truncated", "accepted", format!("{cut} bytes accepted")),
            Ok(Err(_)) => {}
        }
    }
}

fn numeric_roundtrip<T: Bytes + PartialEq + std::fmt::Debug + Copy>(acc: &mut Acc, name: &'static str, vals: &[T], bits: impl Fn(&T) -> u128) {
    for v in vals {
        acc.count("values", hash64(&(name, bits(v))));
        let b = v.to_bytes();
        match guarded(|| T::from_bytes(b.as_ref())) {
            Ok(Ok(back)) if bits(&back) == bits(v) => {}
            other => acc.viol("values", name, "roundtrip", format!("{v:?} -> {other:?}")),
        }
        // wrong lengths must be errors
        let bytes = b.as_ref();
        for l in [0, bytes.len().saturating_sub(1), bytes.len() + 1] {
            if l == bytes.len() {
                continue;
            }
            let mut x = bytes.to_vec();
            x.resize(l, 0);
            acc.count("values", hash64(&(name, l, 1u8)));
            match guarded(|| T::from_bytes(&x)) {
                Ok(Err(_)) => {}
                Ok(Ok(_)) => acc.viol("values", name, "wrong_length_accepted", format!("{l} bytes")),
                Err(p) => acc.viol("values", name, "panic", p),
            }
        }
    }
}

fn values(acc: &mut Acc) {
    macro_rules! ints {
        ($($t:ty),*) => {$(
            numeric_roundtrip::<$t>(acc, stringify!($t), &[<$t>::MIN, <$t>::MIN + 1, 0 as $t, 1 as $t, <$t>::MAX / 2, <$t>::MAX - 1, <$t>::MAX], |v| *v as u128);
        )*};
    }
    ints!(u8, u16, u32, u64, u128, usize, i8, i16, i32, i64, i128, isize);
    let f32s: Vec<f32> = [0u32, 1, 0x7f7f_ffff, 0x7f80_0000, 0x7f80_0001, 0x7fc0_0000, 0x7fff_ffff, 0x8000_0000, 0x8000_0001, 0xff80_0000, 0xffff_ffff, 0x0080_0000, 0x007f_ffff, 0x3f80_0000]
        .iter()
        .map(|b| f32::from_bits(*b))
        .collect();
    numeric_roundtrip::<f32>(acc, "f32", &f32s, |v| v.to_bits() as u128);
    let f64s: Vec<f64> = [0u64, 1, 0x7fef_ffff_ffff_ffff, 0x7ff0_0000_0000_0000, 0x7ff0_0000_0000_0001, 0x7ff8_0000_0000_0000, u64::MAX, 1 << 63, 0x000f_ffff_ffff_ffff, 0x0010_0000_0000_0000]
        .iter()
        .map(|b| f64::from_bits(*b))
        .collect();
    numeric_roundtrip::<f64>(acc, "f64", &f64s, |v| v.to_bits() as u128);
    macro_rules! arrays {
        ($($n:expr),*) => {$(
            {
                let mut a = [0u8; $n];
                let mut b = [0xffu8; $n];
                for i in 0..$n { a[i] = i as u8; b[i] = 255 - i as u8; }
                numeric_roundtrip::<[u8; $n]>(acc, concat!("[u8;", stringify!($n), "]"), &[[0u8; $n], a, b, [0xffu8; $n]], |v| hash64(v) as u128);
            }
        )*};
    }
    arrays!(1, 2, 3, 4, 5, 6, 7, 8, 9, 10, 11, 12, 13, 14, 15, 16, 17, 18, 19, 20, 21, 22, 23, 24, 25, 26, 27, 28, 29, 30, 31, 32, 33, 64, 65);
}

/// Value decoding with every (byte length, claimed value count) pair of a grid.
fn strategies(acc: &mut Acc) {
    fn grid<S: CompressionStrategy<u32>>(acc: &mut Acc, name: &'static str) {
        let lens = [0usize, 1, 3, 4, 5, 7, 8, 16, 4096 * 4, 4096 * 4 + 1];
        let counts = [0usize, 1, 2, 3, 4, 4096, 4097, 1 << 20, 1 << 26];
        for &l in &lens {
            let bytes: Vec<u8> = (0..l).map(|i| (i * 7 + 1) as u8).collect();
            for &n in &counts {
                acc.count("value_decoding", hash64(&(name, l, n)));
                // raw page decoding
                let (r, peak) = measured(|| guarded(|| S::bytes_to_values(&bytes, n)));
                let class = if n * 4 > l { "claimed_more_than_present" } else { "claimed_fits" };
                if peak > 4 * l + 65536 {
                    acc.viol(
                        "value_decoding",
                        &format!("{name}:bytes_to_values:{class}"),
                        "allocation",
                        format!("{peak} bytes allocated to decode {l} input bytes claiming {n} values"),
                    );
                }
                match r {
                    Err(p) => acc.viol("value_decoding", &format!("{name}:bytes_to_values:{class}"), &format!("panic:{}", p.split(": ").next().unwrap_or("?")), p),
                    Ok(Ok(v)) => {
                        if v.len() != n || n * 4 > l {
                            acc.viol("value_decoding", &format!("{name}:bytes_to_values:{class}"), "accepted", format!("{l} bytes, claimed {n}, returned {} values", v.len()));
                        }
                    }
                    Ok(Err(_)) => {
                        if n * 4 == l && name != "pco" {
                            acc.viol("value_decoding", &format!("{name}:bytes_to_values:{class}"), "valid_rejected", format!("{l} bytes claimed {n}"));
                        }
                    }
                }
                // compressed page decoding of garbage
                if n <= 1 << 20 {
                    let (r, peak) = measured(|| guarded(|| S::decompress(&bytes, n)));
                    if peak > 4 * l + (1 << 20) + 16 * n.min(4097) {
                        acc.viol(
                            "value_decoding",
                            &format!("{name}:decompress:{class}"),
                            "allocation",
                            format!("{peak} bytes allocated to decompress {l} garbage bytes claiming {n} values"),
                        );
                    }
                    if let Err(p) = r {
                        acc.viol("value_decoding", &format!("{name}:decompress:{class}"), &format!("panic:{}", p.split(": ").next().unwrap_or("?")), p);
                    }
                }
            }
        }
        // round trip of real pages and their truncations / mutations
        let vals: Vec<u32> = (0..4096u32).map(|i| i.wrapping_mul(2654435761) >> 7).collect();
        for take in [1usize, 2, 100, 4095, 4096] {
            let page = &vals[..take];
            let enc = S::compress(page).expect("compress");
            acc.count("value_decoding", hash64(&(name, take, 9u8)));
            match guarded(|| S::decompress(&enc, take)) {
                Ok(Ok(v)) if v == page => {}
                other => acc.viol("value_decoding", &format!("{name}:roundtrip"), "roundtrip", format!("{take} values: {:?}", other.map(|r| r.map(|v| v.len()))),),
            }
            let step = (enc.len() / 40).max(1);
            let mut cut = 0;
            while cut < enc.len() {
                acc.count("value_decoding", hash64(&(name, take, cut, 3u8)));
                match guarded(|| S::decompress(&enc[..cut], take)) {
                    Err(p) => acc.viol("value_decoding", &format!("{name}:truncated_page"), &format!("panic:{}", p.split(": ").next().unwrap_or("?")), p),
                    Ok(Ok(v)) => {
                        if v.len() == take && v != page {
                            acc.viol("value_decoding", &format!("{name}:truncated_page"), "wrong_values_accepted", format!("{take} values cut at {cut}"));
                        }
                    }
                    Ok(Err(_)) => {}
                }
                let mut m = enc.clone();
                m[cut] ^= 0x80;
                if let Err(p) = guarded(|| S::decompress(&m, take)) {
                    acc.viol("value_decoding", &format!("{name}:mutated_page"), &format!("panic:{}", p.split(": ").next().unwrap_or("?")), p);
                }
                cut += step;
            }
        }
    }
    grid::<PcodecStrategy<u32>>(acc, "pco");
    grid::<LZ4Strategy<u32>>(acc, "lz4");
    grid::<ZstdStrategy<u32>>(acc, "zstd");
}

pub fn add(run: &mut Run, kf: &KnownFindings, tier: &str) {
    let classify = kf.classifier("C17");
    let root = Scratch::new("codecx");
    let thorough = tier != "quick";
    let mut acc = Acc {
        run,
        classify: &classify,
        decodes: 0,
        per_group: BTreeMap::new(),
        distinct: Default::default(),
        samples: 0,
    };
    region_metadata(&mut acc, thorough);
    region_metadata_encoder(&mut acc, &root);
    regions_fill(&mut acc, &root, if thorough { 4 } else { 3 });
    header_and_page(&mut acc, &root);
    values(&mut acc);
    strategies(&mut acc);
    let (decodes, per_group, distinct) = (acc.decodes, acc.per_group, acc.distinct.len() as u64);
    run.cov_add("states", decodes);
    run.cov_add("transitions", decodes);
    run.cov_add("traces_validated_against_impl", decodes);
    run.cov_add("evaluations", decodes);
    run.cov_add("distinct_nontrivial", distinct);
    run.cov("exhaustive", json!(true));
    let mut e = run.coverage.remove("explorations").unwrap_or_else(|| json!([]));
    e.as_array_mut().unwrap().push(json!({
        "label": "codecx",
        "decodes": decodes,
        "per_group": per_group,
        "mutation_stride": if thorough { 1 } else { 97 },
        "regions_fill_max_slots": if thorough { 4 } else { 3 },
    }));
    run.cov("explorations", e);
    run.assumptions.push("codecx: peak allocation is measured with a counting global allocator; bound = 4 x input length + 64 KiB (decompress: + 1 MiB codec state)".into());
    run.assumptions.push("codecx: rollback change records are covered by the fault enumeration of the vecx engine (explorations labelled vecx/...+faults below)".into());
}
