//! crashx — every crash image of every explored history (C05, crash part of C12).
//!
//! A history runs on the real rawdb with the durable-image tap on. Next to the real files
//! the harness keeps, per file, the volatile contents (page cache), the durable contents
//! and every version each page has had since that file's last sync. At every event
//! boundary the crash images of two environments are materialised, opened with the real
//! `Database::open` and judged (DESIGN §3.3).

use std::{
    collections::{BTreeMap, BTreeSet, HashSet},
    fs,
    path::{Path, PathBuf},
};

use rawdb::{Database, PAGE_SIZE};

use crate::{
    rawx::{NAMES, RawCfg, RawOp, RawSys},
    seqx::{Key, Step, Sys, Violation, guarded, hash64, hash128},
    tap::{self, DurEv, FileKind},
};

#[derive(Clone, Default)]
struct FileModel {
    vol: Vec<u8>,
    dur: Vec<u8>,
    /// page -> distinct contents it has had since the last sync (oldest first)
    versions: BTreeMap<usize, Vec<Vec<u8>>>,
}

impl FileModel {
    fn page(buf: &[u8], p: usize) -> Vec<u8> {
        let lo = p * PAGE_SIZE;
        let hi = ((p + 1) * PAGE_SIZE).min(buf.len());
        let mut v = if lo < buf.len() { buf[lo..hi].to_vec() } else { vec![] };
        v.resize(PAGE_SIZE, 0);
        v
    }
    fn note(&mut self, p: usize) {
        let cur = Self::page(&self.vol, p);
        let dur = Self::page(&self.dur, p);
        let e = self.versions.entry(p).or_default();
        if e.last() != Some(&cur) {
            e.push(cur.clone());
        }
        // a page that is back to its durable content and has no other version is clean
        if e.len() == 1 && e[0] == dur {
            self.versions.remove(&p);
        }
    }
    fn write(&mut self, off: usize, bytes: &[u8]) {
        if bytes.is_empty() {
            return;
        }
        if self.vol.len() < off + bytes.len() {
            // a write beyond the modelled length would be a harness bug
            self.vol.resize(off + bytes.len(), 0);
        }
        self.vol[off..off + bytes.len()].copy_from_slice(bytes);
        for p in off / PAGE_SIZE..=(off + bytes.len() - 1) / PAGE_SIZE {
            self.note(p);
        }
    }
    fn set_len(&mut self, len: usize) {
        // length changes are durable immediately and in order
        self.vol.resize(len, 0);
        self.dur.resize(len, 0);
    }
    fn punch(&mut self, off: usize, len: usize) {
        let z = vec![0u8; len];
        self.write(off, &z);
    }
    fn sync(&mut self) {
        self.dur = self.vol.clone();
        self.versions.clear();
    }
    fn dirty_pages(&self) -> Vec<usize> {
        self.versions.keys().copied().collect()
    }
    fn digest(&self) -> u64 {
        hash64(&(&self.dur, &self.versions))
    }
}

fn file_of<'a>(k: FileKind, data: &'a mut FileModel, regs: &'a mut FileModel) -> &'a mut FileModel {
    match k {
        FileKind::Data => data,
        FileKind::Regions => regs,
    }
}

type Snap = BTreeMap<u32, (String, Vec<u8>)>;

/// (image, comparison context) pairs already judged by this worker process.
static SEEN_IMAGES: parking_lot::Mutex<std::sync::LazyLock<HashSet<u128>>> =
    parking_lot::Mutex::new(std::sync::LazyLock::new(HashSet::new));

/// Forget which crash images were judged already (replays judge the same images again).
pub fn reset_image_cache() {
    SEEN_IMAGES.lock().clear();
}


/// Writes a file image sparsely (trailing zeros become a hole).
fn write_image(path: &Path, bytes: &[u8]) {
    let used = bytes.iter().rposition(|b| *b != 0).map_or(0, |p| p + 1);
    fs::write(path, &bytes[..used]).unwrap();
    let f = fs::OpenOptions::new().write(true).open(path).unwrap();
    f.set_len(bytes.len() as u64).unwrap();
}

pub struct CrashSys {
    inner: RawSys,
    data: FileModel,
    regs: FileModel,
    /// region identity that survives renames: name index -> id
    ids: BTreeMap<u8, u32>,
    next_id: u32,
    /// state of every region at the end of the last completed Database::flush
    s_flush: Snap,
    /// ids that were the target of a call since then
    touched: BTreeSet<u32>,
    /// states at the end of every completed flush-kind call since (and including) the last
    /// completed Database::flush: a Region::flush with nothing to do issues no sync, so the
    /// durable state may be any of them
    s_done: Vec<Snap>,
    /// ids whose flushed bytes were overwritten in place since s_done
    overwritten: BTreeSet<u32>,
    flushed_once: bool,
    scratch: PathBuf,
    seen_images: HashSet<u128>,
    counters: BTreeMap<&'static str, u64>,
}

#[derive(Debug)]
struct Recovered {
    name: String,
    start: usize,
    len: usize,
    reserved: usize,
    bytes: Vec<u8>,
}

impl CrashSys {
    fn snapshot(&self) -> Snap {
        // a region that never held data and was never renamed has no slot on disk yet and
        // need not survive (C01 leaves that open): it is "absent" as far as durability goes
        self.inner
            .model
            .iter()
            .filter(|(_, m)| m.durable)
            .map(|(k, m)| (self.ids[k], (NAMES[*k as usize].to_string(), m.bytes.clone())))
            .collect()
    }

    fn bump(&mut self, k: &'static str, n: u64) {
        *self.counters.entry(k).or_default() += n;
    }

    /// Opens one crash image with the real code and judges it.
    #[allow(clippy::too_many_arguments)]
    fn judge(
        &mut self,
        data: &[u8],
        regs: &[u8],
        env_b: bool,
        s_begin: Option<&Snap>,
        kind: &str,
        point: &str,
        viols: &mut Vec<Violation>,
    ) {
        let h = hash128(&[&hash128(data).to_le_bytes()[..], &hash128(regs).to_le_bytes()[..], &[env_b as u8]].concat());
        // the verdict depends on the image and on what it is compared with
        let ctx = hash64(&(&self.s_flush, &self.touched, &self.s_done, &self.overwritten, s_begin, self.flushed_once));
        let _ = &self.seen_images;
        if !SEEN_IMAGES.lock().insert(h ^ ((ctx as u128) << 64 | ctx as u128)) {
            self.bump("images_deduplicated", 1);
            return;
        }
        self.bump(if env_b { "images_env_b" } else { "images_env_a" }, 1);
        let dir = &self.scratch;
        let _ = fs::remove_dir_all(dir);
        fs::create_dir_all(dir).unwrap();
        write_image(&dir.join("data"), data);
        write_image(&dir.join("regions"), regs);
        let env = if env_b { "library_syncs_only" } else { "arbitrary_writeback" };
        let sig = |div: &str| format!("{kind}|{point}|{env}|{div}");
        let opened = guarded(|| -> Result<Vec<Recovered>, String> {
            let db = Database::open(dir).map_err(|e| format!("{e:?}"))?;
            let regs: Vec<rawdb::Region> = db.regions().index_to_region().iter().flatten().cloned().collect();
            let mut out = Vec::new();
            for r in regs {
                let (name, start, len, reserved) = {
                    let m = r.meta();
                    (m.id().to_string(), m.start(), m.len(), m.reserved())
                };
                // a region whose extent lies outside the file cannot be read at all
                let bytes = if start + len <= db.file_len() {
                    r.create_reader().read_all().to_vec()
                } else {
                    vec![]
                };
                out.push(Recovered { name, start, len, reserved, bytes });
            }
            Ok(out)
        });
        let rec = match opened {
            Err(p) => {
                viols.push(Violation {
                    property: "C05".into(),
                    signature: sig(&format!("open_panic:{}", p.split(": ").next().unwrap_or("?"))),
                    detail: format!("opening the crash image panicked: {p}"),
                });
                return;
            }
            Ok(Err(e)) => {
                viols.push(Violation {
                    property: "C05".into(),
                    signature: sig("open_failed"),
                    detail: format!("the crash image does not open: {e}"),
                });
                return;
            }
            Ok(Ok(r)) => r,
        };
        // --- part 1: layout
        let mut ext: Vec<(usize, usize, &str)> = rec.iter().map(|r| (r.start, r.reserved, r.name.as_str())).collect();
        ext.sort();
        for w in ext.windows(2) {
            if w[0].0 + w[0].1 > w[1].0 {
                viols.push(Violation {
                    property: "C05".into(),
                    signature: sig("recovered_regions_overlap"),
                    detail: format!("'{}' [{}, +{}) overlaps '{}' at {}", w[0].2, w[0].0, w[0].1, w[1].2, w[1].0),
                });
            }
        }
        for r in &rec {
            if r.start % PAGE_SIZE != 0 || r.start + r.reserved > data.len() {
                viols.push(Violation {
                    property: "C05".into(),
                    signature: sig("recovered_region_outside_file"),
                    detail: format!("'{}' [{}, +{}) in a data file of {} bytes", r.name, r.start, r.reserved, data.len()),
                });
            }
        }
        // Two recovered regions with one name: the statement promises name, length and bytes
        // for regions *not modified* since the flush, so this is judged only when the name is
        // that of such a region (it could then no longer be found under its name). Among
        // regions that were removed / renamed since the flush (remove a; rename b -> a; crash
        // with only b's slot written back) it is outside what C05 states.
        let untouched_names: HashSet<&String> = self.s_flush.iter().filter(|(id, _)| !self.touched.contains(id)).map(|(_, (n, _))| n).collect();
        let mut names = HashSet::new();
        for r in &rec {
            if !names.insert(&r.name) && untouched_names.contains(&r.name) {
                viols.push(Violation {
                    property: "C05".into(),
                    signature: sig("duplicate_name"),
                    detail: format!("two recovered regions are called '{}'", r.name),
                });
            }
        }
        // --- part 1: untouched flushed regions
        if self.flushed_once {
            for (id, (name, bytes)) in &self.s_flush {
                if self.touched.contains(id) {
                    continue;
                }
                match rec.iter().find(|r| &r.name == name) {
                    None => viols.push(Violation {
                        property: "C05".into(),
                        signature: sig("untouched_region_lost"),
                        detail: format!("region '{name}' ({} bytes at the last flush, not modified since) is missing", bytes.len()),
                    }),
                    Some(r) => {
                        if &r.bytes != bytes {
                            viols.push(Violation {
                                property: "C05".into(),
                                signature: sig(if r.len != bytes.len() { "untouched_region_length" } else { "untouched_region_bytes" }),
                                detail: format!(
                                    "region '{name}' not modified since the last flush: recovered {} bytes, flushed {} bytes, first difference at {}",
                                    r.len,
                                    bytes.len(),
                                    r.bytes.iter().zip(bytes).position(|(a, b)| a != b).unwrap_or(r.bytes.len().min(bytes.len()))
                                ),
                            });
                        }
                    }
                }
            }
        }
        // --- part 2 (library syncs only): each region as a whole at the last completed
        //     flush-kind call or at the beginning of the interrupted one
        if env_b && self.flushed_once {
            let mut explained: HashSet<&str> = HashSet::new();
            let ids: Vec<u32> = self
                .s_done
                .iter()
                .flat_map(|s| s.keys())
                .chain(s_begin.iter().flat_map(|s| s.keys()))
                .copied()
                .collect::<BTreeSet<u32>>()
                .into_iter()
                .collect();
            // candidate states per identity: at each completed flush-kind call since the
            // last full flush, and at the beginning of the interrupted one
            let cands: Vec<Vec<Option<&(String, Vec<u8>)>>> = ids
                .iter()
                .map(|id| {
                    let mut c: Vec<Option<&(String, Vec<u8>)>> = self.s_done.iter().map(|s| s.get(id)).collect();
                    if let Some(s) = s_begin {
                        c.push(s.get(id));
                    }
                    c
                })
                .collect();
            for c in &cands {
                for (n, _) in c.iter().flatten() {
                    explained.insert(n.as_str());
                }
            }
            // A name can belong to two identities (a region removed and created again before
            // the flush), so the recovered regions are matched to identities jointly: every
            // recovered region with a known name must be some identity in one of its
            // candidate states (any bytes for an identity that was overwritten in place), no
            // identity explains two regions, and every identity left over must have been
            // absent in one of its candidate states.
            let known: Vec<&Recovered> = rec.iter().filter(|r| explained.contains(r.name.as_str())).collect();
            let can_be = |i: usize, r: &Recovered| -> bool {
                let free = self.overwritten.contains(&ids[i]);
                cands[i].iter().flatten().any(|(n, b)| n == &r.name && (free || b == &r.bytes))
            };
            let may_be_absent = |i: usize| -> bool { cands[i].iter().any(|c| c.is_none()) };
            fn assign(j: usize, known: &[&Recovered], used: &mut Vec<bool>, can_be: &dyn Fn(usize, &Recovered) -> bool, may_be_absent: &dyn Fn(usize) -> bool) -> bool {
                if j == known.len() {
                    return (0..used.len()).all(|i| used[i] || may_be_absent(i));
                }
                for i in 0..used.len() {
                    if !used[i] && can_be(i, known[j]) {
                        used[i] = true;
                        if assign(j + 1, known, used, can_be, may_be_absent) {
                            return true;
                        }
                        used[i] = false;
                    }
                }
                false
            }
            let mut used = vec![false; ids.len()];
            if !assign(0, &known, &mut used, &can_be, &may_be_absent) {
                let show = |c: &Option<&(String, Vec<u8>)>| match c {
                    None => "absent".to_string(),
                    Some((n, b)) => format!("'{n}' with {} bytes", b.len()),
                };
                let got: Vec<String> = known.iter().map(|r| format!("'{}' with {} bytes", r.name, r.len)).collect();
                let allowed: Vec<String> = cands
                    .iter()
                    .enumerate()
                    .map(|(i, c)| {
                        format!(
                            "[{}{}]",
                            c.iter().map(show).collect::<BTreeSet<_>>().into_iter().collect::<Vec<_>>().join(" | "),
                            if self.overwritten.contains(&ids[i]) { " (bytes free: overwritten in place)" } else { "" }
                        )
                    })
                    .collect();
                viols.push(Violation {
                    property: "C05".into(),
                    signature: sig("neither_before_nor_after"),
                    detail: format!(
                        "recovered regions {got:?} cannot be matched to the regions' states at a completed flush / when the interrupted flush began; per region: {}",
                        allowed.join(" ")
                    ),
                });
            }
            for r in &rec {
                if !explained.contains(r.name.as_str()) {
                    viols.push(Violation {
                        property: "C05".into(),
                        signature: sig("unexplained_region"),
                        detail: format!("recovered region '{}' ({} bytes) existed neither at the last completed flush nor when the interrupted one began", r.name, r.len),
                    });
                }
            }
        }
    }

    /// Data pages that can matter under a given regions image: those inside the contents
    /// of a decodable slot.
    fn relevant_pages(regs: &[u8]) -> BTreeSet<usize> {
        let mut out = BTreeSet::new();
        for slot in regs.chunks(PAGE_SIZE) {
            if slot.len() < 32 {
                continue;
            }
            let start = u64::from_le_bytes(slot[0..8].try_into().unwrap()) as usize;
            let len = u64::from_le_bytes(slot[8..16].try_into().unwrap()) as usize;
            if len == 0 || start % PAGE_SIZE != 0 || len > 1 << 30 {
                continue;
            }
            for p in start / PAGE_SIZE..=(start + len - 1) / PAGE_SIZE {
                out.insert(p);
            }
        }
        out
    }

    /// All crash images at one event boundary.
    #[allow(clippy::too_many_arguments)]
    fn crash_point(
        &mut self,
        data: &FileModel,
        regs: &FileModel,
        in_sync: Option<FileKind>,
        s_begin: Option<&Snap>,
        kind: &str,
        point: &str,
        viols: &mut Vec<Violation>,
    ) {
        // ---------- environment (b): pages reach the disk only through the library's syncs
        match in_sync {
            None => self.judge(&data.dur, &regs.dur, true, s_begin, kind, point, viols),
            Some(FileKind::Regions) => {
                let dirty = regs.dirty_pages();
                let n = dirty.len().min(10);
                for mask in 0..(1u32 << n) {
                    let mut img = regs.dur.clone();
                    img.resize(regs.vol.len(), 0);
                    for (k, p) in dirty.iter().take(n).enumerate() {
                        if mask & (1 << k) != 0 {
                            let lo = p * PAGE_SIZE;
                            let hi = (lo + PAGE_SIZE).min(img.len());
                            img[lo..hi].copy_from_slice(&regs.vol[lo..hi]);
                        }
                    }
                    self.judge(&data.dur, &img, true, s_begin, kind, point, viols);
                }
            }
            Some(FileKind::Data) => {
                let dirty = data.dirty_pages();
                let mut old = data.dur.clone();
                old.resize(data.vol.len(), 0);
                self.judge(&old, &regs.dur, true, s_begin, kind, point, viols);
                self.judge(&data.vol, &regs.dur, true, s_begin, kind, point, viols);
                let rel = Self::relevant_pages(&regs.dur);
                for p in dirty.iter().filter(|p| rel.contains(p)) {
                    let lo = p * PAGE_SIZE;
                    let hi = (lo + PAGE_SIZE).min(old.len());
                    let mut a = old.clone();
                    a[lo..hi].copy_from_slice(&data.vol[lo..hi]);
                    self.judge(&a, &regs.dur, true, s_begin, kind, point, viols);
                    let mut b = data.vol.clone();
                    b[lo..hi].copy_from_slice(&old[lo..hi]);
                    self.judge(&b, &regs.dur, true, s_begin, kind, point, viols);
                }
            }
        }
        // ---------- environment (a): the OS may have written back any subset of dirty pages
        let rdirty = regs.dirty_pages();
        let choices: Vec<Vec<Vec<u8>>> = rdirty
            .iter()
            .take(6)
            .map(|p| {
                let mut c = vec![FileModel::page(&regs.dur, *p)];
                for v in &regs.versions[p] {
                    if !c.contains(v) {
                        c.push(v.clone());
                    }
                }
                c
            })
            .collect();
        let total: usize = choices.iter().map(|c| c.len()).product();
        for code in 0..total.min(2000) {
            let mut c = code;
            let mut rimg = regs.dur.clone();
            rimg.resize(regs.vol.len(), 0);
            for (k, p) in rdirty.iter().take(6).enumerate() {
                let pick = &choices[k][c % choices[k].len()];
                c /= choices[k].len();
                let lo = p * PAGE_SIZE;
                let hi = (lo + PAGE_SIZE).min(rimg.len());
                rimg[lo..hi].copy_from_slice(&pick[..hi - lo]);
            }
            let rel = Self::relevant_pages(&rimg);
            let mut old = data.dur.clone();
            old.resize(data.vol.len(), 0);
            self.judge(&old, &rimg, false, None, kind, point, viols);
            self.judge(&data.vol, &rimg, false, None, kind, point, viols);
            for (p, versions) in data.versions.iter().filter(|(p, _)| rel.contains(p)) {
                let lo = p * PAGE_SIZE;
                let hi = (lo + PAGE_SIZE).min(old.len());
                for v in versions {
                    let mut a = old.clone();
                    a[lo..hi].copy_from_slice(&v[..hi - lo]);
                    self.judge(&a, &rimg, false, None, kind, point, viols);
                }
                let mut olds: Vec<Vec<u8>> = vec![FileModel::page(&data.dur, *p)];
                olds.extend(versions.iter().take(versions.len().saturating_sub(1)).cloned());
                for v in olds {
                    let mut b = data.vol.clone();
                    b[lo..hi].copy_from_slice(&v[..hi - lo]);
                    self.judge(&b, &rimg, false, None, kind, point, viols);
                }
            }
        }
    }
}

impl Sys for CrashSys {
    type Op = RawOp;
    type Cfg = RawCfg;

    fn init(cfg: &RawCfg, dir: &Path) -> Self {
        tap::start_durable();
        let inner = RawSys::init(cfg, dir);
        let evs = tap::take_durable();
        let mut this = Self {
            inner,
            data: FileModel::default(),
            regs: FileModel::default(),
            ids: BTreeMap::new(),
            next_id: 0,
            s_flush: Snap::new(),
            touched: BTreeSet::new(),
            s_done: vec![Snap::new()],
            overwritten: BTreeSet::new(),
            flushed_once: false,
            scratch: dir.with_extension("crashimg"),
            seen_images: HashSet::new(),
            counters: BTreeMap::new(),
        };
        for e in &evs {
            this.absorb(e);
        }
        // prefill (if any) ends with a flush: everything is durable
        let names: Vec<u8> = this.inner.model.keys().copied().collect();
        for k in names {
            this.ids.insert(k, this.next_id);
            this.next_id += 1;
        }
        if cfg.prefill > 0 {
            this.s_flush = this.snapshot();
            this.s_done = vec![this.s_flush.clone()];
            this.flushed_once = true;
        }
        this
    }

    fn ops(&self, cfg: &RawCfg) -> Vec<RawOp> {
        self.inner.ops(cfg)
    }

    fn apply(&mut self, _cfg: &RawCfg, op: &RawOp, check: bool) -> Step {
        let mut viols = Vec::new();
        let kind = op.kind();
        let s_begin_snap = self.snapshot();
        let flush_kind = matches!(op, RawOp::Flush | RawOp::RegionFlush(_) | RawOp::Compact | RawOp::Reopen);
        let pre = check.then(|| (self.data.clone(), self.regs.clone()));

        // identity bookkeeping (before the model changes)
        let target: Option<u8> = match op {
            RawOp::Write(n, _) | RawOp::WriteAt(n, ..) | RawOp::BatchWrite(n, ..) | RawOp::Truncate(n, _) | RawOp::TruncateWrite(n, ..) | RawOp::Rename(n, _) | RawOp::Remove(n) | RawOp::Create(n) => Some(*n),
            _ => None,
        };
        let in_place = match op {
            RawOp::BatchWrite(n, o, _) => {
                let at = self.inner.off(*n, *o);
                let flushed = self
                    .ids
                    .get(n)
                    .map_or(0, |id| self.s_done.iter().filter_map(|s| s.get(id)).map(|(_, b)| b.len()).max().unwrap_or(0));
                at < flushed
            }
            RawOp::WriteAt(n, o, sz) => {
                let at = self.inner.off(*n, *o);
                let flushed = self
                    .ids
                    .get(n)
                    .map_or(0, |id| self.s_done.iter().filter_map(|s| s.get(id)).map(|(_, b)| b.len()).max().unwrap_or(0));
                *sz > 0 && at < flushed
            }
            RawOp::TruncateWrite(n, o, _) | RawOp::Truncate(n, o) => {
                let at = self.inner.off(*n, *o);
                let flushed = self
                    .ids
                    .get(n)
                    .map_or(0, |id| self.s_done.iter().filter_map(|s| s.get(id)).map(|(_, b)| b.len()).max().unwrap_or(0));
                at < flushed
            }
            _ => false,
        };

        tap::start_durable();
        let result = guarded(|| self.inner.exec(op));
        let evs = tap::take_durable();
        let expected = self.inner.model_apply(op);
        let ok = matches!(result, Ok(Ok(())));
        if let Err(p) = &result {
            viols.push(Violation {
                property: "C01".into(),
                signature: format!("{kind}||panic:{}", p.split(": ").next().unwrap_or("?")),
                detail: p.clone(),
            });
        }
        let _ = expected;

        // identities after the op
        match op {
            RawOp::Create(n) if !self.ids.contains_key(n) => {
                self.ids.insert(*n, self.next_id);
                self.next_id += 1;
            }
            RawOp::Rename(n, m) if ok => {
                if let Some(id) = self.ids.remove(n) {
                    self.ids.insert(*m, id);
                }
            }
            _ => {}
        }
        if let Some(t) = target {
            let key = if let (RawOp::Rename(_, m), true) = (op, ok) { *m } else { t };
            if let Some(id) = self.ids.get(&key).copied() {
                self.touched.insert(id);
                if in_place {
                    self.overwritten.insert(id);
                }
            }
        }
        if matches!(op, RawOp::Remove(_) | RawOp::Retain(_)) && ok {
            let live: BTreeSet<u8> = self.inner.model.keys().copied().collect();
            let gone: Vec<u8> = self.ids.keys().copied().filter(|k| !live.contains(k)).collect();
            for k in gone {
                if let Some(id) = self.ids.remove(&k) {
                    self.touched.insert(id);
                }
            }
        }

        // --- crash images at every event boundary of this operation
        let mut after_flush: Option<(FileModel, FileModel)> = None;
        if let Some((mut d, mut r)) = pre {
            let s_begin = flush_kind.then_some(&s_begin_snap);
            let mut in_sync: Option<FileKind> = None;
            self.bump("crash_points", evs.len() as u64 + 1);
            for (i, e) in evs.iter().enumerate() {
                let point = match e {
                    DurEv::Write { file: FileKind::Data, .. } => "before_data_write",
                    DurEv::Write { file: FileKind::Regions, .. } => "before_slot_write",
                    DurEv::SetLen { .. } => "before_set_len",
                    DurEv::SyncBegin { file: FileKind::Data } => "before_data_sync",
                    DurEv::SyncBegin { file: FileKind::Regions } => "before_regions_sync",
                    DurEv::SyncEnd { file: FileKind::Data } => "inside_data_sync",
                    DurEv::SyncEnd { file: FileKind::Regions } => "inside_regions_sync",
                    DurEv::Punch { .. } => "before_punch",
                };
                let _ = i;
                let mut v = Vec::new();
                self.crash_point(&d, &r, in_sync, s_begin, kind, point, &mut v);
                viols.append(&mut v);
                // C12 (crash part): at the moment of a punch no regions-file image that can be
                // on disk may reference the punched bytes
                if let DurEv::Punch { off, len } = e {
                    let mut imgs: Vec<Vec<u8>> = vec![r.dur.clone(), r.vol.clone()];
                    for (p, vs) in &r.versions {
                        for ver in vs {
                            let mut img = r.dur.clone();
                            img.resize(r.vol.len(), 0);
                            let lo = p * PAGE_SIZE;
                            let hi = (lo + PAGE_SIZE).min(img.len());
                            img[lo..hi].copy_from_slice(&ver[..hi - lo]);
                            imgs.push(img);
                        }
                    }
                    'img: for img in imgs {
                        for slot in img.chunks(PAGE_SIZE) {
                            if slot.len() < 32 {
                                continue;
                            }
                            let s = u64::from_le_bytes(slot[0..8].try_into().unwrap()) as usize;
                            let l = u64::from_le_bytes(slot[8..16].try_into().unwrap()) as usize;
                            let idl = u64::from_le_bytes(slot[24..32].try_into().unwrap()) as usize;
                            if l > 0 && idl > 0 && idl <= 1024 && s < off + len && *off < s + l {
                                viols.push(Violation {
                                    property: "C12".into(),
                                    signature: format!("{kind}|punch|metadata_on_disk_references_punched_bytes"),
                                    detail: format!("punch of [{off}, +{len}) while a regions-file image that may be on disk holds a slot with contents [{s}, +{l})"),
                                });
                                break 'img;
                            }
                        }
                    }
                }
                match e {
                    DurEv::Write { file, off, bytes } => file_of(*file, &mut d, &mut r).write(*off, bytes),
                    DurEv::SetLen { file, len } => file_of(*file, &mut d, &mut r).set_len(*len),
                    DurEv::SyncBegin { file } => in_sync = Some(*file),
                    DurEv::SyncEnd { file } => {
                        file_of(*file, &mut d, &mut r).sync();
                        in_sync = None;
                    }
                    DurEv::Punch { off, len } => d.punch(*off, *len),
                }
            }
            if ok && flush_kind {
                // judged below, once the flush counts as completed
                after_flush = Some((d, r));
            } else {
                let mut v = Vec::new();
                self.crash_point(&d, &r, None, s_begin, kind, "after_call", &mut v);
                viols.append(&mut v);
            }
        }
        for e in &evs {
            self.absorb(e);
        }

        // --- tap completeness: the modelled page cache equals the real files
        if check {
            for (name, m) in [("data", &self.data), ("regions", &self.regs)] {
                let real = fs::read(self.inner.dir.join(name)).unwrap_or_default();
                if real != m.vol {
                    let first = real.iter().zip(&m.vol).position(|(a, b)| a != b).unwrap_or(real.len().min(m.vol.len()));
                    viols.push(Violation {
                        property: "MACHINERY".into(),
                        signature: format!("tap_incomplete:{name}"),
                        detail: format!("{name}: real file has {} bytes, modelled {} bytes, first difference at {first} after {kind}", real.len(), m.vol.len()),
                    });
                }
            }
        }

        // --- flush bookkeeping
        if ok && matches!(op, RawOp::Flush | RawOp::Compact | RawOp::Reopen) {
            self.s_flush = self.snapshot();
            self.touched.clear();
            self.flushed_once = true;
        }
        if ok && matches!(op, RawOp::Flush | RawOp::Compact | RawOp::Reopen) {
            self.s_done = vec![self.snapshot()];
            self.overwritten.clear();
        } else if ok && flush_kind {
            let s = self.snapshot();
            if self.s_done.last() != Some(&s) {
                self.s_done.push(s);
            }
            if matches!(op, RawOp::RegionFlush(_)) && !self.flushed_once {
                // part 2 needs some completed flush to refer to
            }
        }
        // a crash right after a flush-kind call has returned: the call is complete, so what it
        // flushed must be there — including regions that were overwritten in place before it
        if let Some((d, r)) = after_flush {
            let mut v = Vec::new();
            self.crash_point(&d, &r, None, None, kind, "after_call", &mut v);
            viols.append(&mut v);
        }
        // dedupe violations per signature
        let mut seen = HashSet::new();
        viols.retain(|v| seen.insert(v.signature.clone()));
        Step {
            obs: hash64(&(kind, self.data.digest(), self.regs.digest())),
            violations: viols,
        }
    }

    fn key(&self) -> Key {
        let k = self.inner.key();
        hash128(
            &[
                &k.to_le_bytes()[..],
                &self.data.digest().to_le_bytes()[..],
                &self.regs.digest().to_le_bytes()[..],
                &hash64(&(&self.s_flush, &self.touched, &self.s_done, &self.overwritten, self.flushed_once)).to_le_bytes()[..],
            ]
            .concat(),
        )
    }

    fn take_counters(&mut self) -> Vec<(&'static str, u64)> {
        std::mem::take(&mut self.counters).into_iter().collect()
    }

    fn abort_verdict(_cfg: &RawCfg, op: &RawOp) -> (String, String) {
        ("C05".into(), format!("{}||process_abort", op.kind()))
    }
    /// One step opens every crash image of the operation (hundreds to thousands of real
    /// `Database::open` calls): the watchdog must not mistake that for a hang.
    fn op_timeout_ms(_cfg: &RawCfg) -> u64 {
        900_000
    }
}

impl CrashSys {
    fn absorb(&mut self, e: &DurEv) {
        match e {
            DurEv::Write { file, off, bytes } => file_of(*file, &mut self.data, &mut self.regs).write(*off, bytes),
            DurEv::SetLen { file, len } => file_of(*file, &mut self.data, &mut self.regs).set_len(*len),
            DurEv::SyncBegin { .. } => {}
            DurEv::SyncEnd { file } => file_of(*file, &mut self.data, &mut self.regs).sync(),
            DurEv::Punch { off, len } => self.data.punch(*off, *len),
        }
    }
}
