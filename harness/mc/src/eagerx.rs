//! eagerx — incrementally maintained computed columns against a from-scratch run of the
//! same method, over all small source histories, starting indices, intermediate
//! writes / re-imports and internal batch sizes (C06).

use std::{
    collections::{BTreeMap, HashSet},
    path::Path,
};

use rawdb::{
    Database,
    verif::{MAX_CACHE_SIZE_CELL, set_threshold, threshold},
};
use serde_json::json;
use vecdb::{
    AnyStoredVec, AnyVec, BytesVec, BytesVecValue, EagerVec, Exit, ImportableVec, ReadableVec,
    Version, WritableVec,
};

use crate::{
    lazyx::MemVec,
    report::{KnownFindings, Run},
    scratch::Scratch,
    seqx::{Disposition, Found, Violation, guarded, hash64},
};

/// All sources of one case, derived from one logical value sequence so that every
/// method finds inputs of the types it needs.
pub struct Srcs {
    pub a: MemVec<u64>,
    pub b: MemVec<u64>,
    pub c: MemVec<u64>,
    pub big: MemVec<u64>,
    pub a16: MemVec<u16>,
    pub b16: MemVec<u16>,
    pub a32: MemVec<u32>,
    pub b32: MemVec<u32>,
    pub starts: MemVec<usize>,
    /// index groups: first fine index and element count per coarse index
    pub first: MemVec<usize>,
    pub count: MemVec<usize>,
    pub fine: MemVec<u64>,
}

impl Srcs {
    fn new() -> Self {
        Self {
            a: MemVec::new("a", vec![]),
            b: MemVec::new("b", vec![]),
            c: MemVec::new("c", vec![]),
            big: MemVec::new("big", vec![]),
            a16: MemVec::new("a16", vec![]),
            b16: MemVec::new("b16", vec![]),
            a32: MemVec::new("a32", vec![]),
            b32: MemVec::new("b32", vec![]),
            starts: MemVec::new("starts", vec![]),
            first: MemVec::new("first", vec![]),
            count: MemVec::new("count", vec![]),
            fine: MemVec::new("fine", vec![]),
        }
    }
    fn set(&self, vals: &[u64]) {
        let n = vals.len();
        self.a.set(vals.to_vec());
        self.b.set(vals.iter().map(|v| v * 2 + 1).collect());
        self.c.set(vals.iter().enumerate().map(|(i, v)| v + 7 + i as u64).collect());
        self.big.set(vals.iter().map(|v| v * 3 + 20).collect());
        self.a16.set(vals.iter().map(|v| *v as u16).collect());
        self.b16.set(vals.iter().map(|v| (*v * 2 + 1) as u16).collect());
        self.a32.set(vals.iter().map(|v| *v as u32).collect());
        self.b32.set(vals.iter().map(|v| (*v * 2 + 1) as u32).collect());
        self.starts.set((0..n).map(|i| i.saturating_sub(2)).collect());
        // groups: size = value % 3, laid out back to back in the fine vector
        let sizes: Vec<usize> = vals.iter().map(|v| (*v % 3) as usize).collect();
        let mut first = Vec::with_capacity(n);
        let mut pos = 0;
        for s in &sizes {
            first.push(pos);
            pos += s;
        }
        self.first.set(first);
        self.count.set(sizes);
        self.fine.set((0..pos as u64).map(|i| 100 + i * 3 + vals.iter().sum::<u64>() % 2).collect());
    }
}

type Out<T> = EagerVec<BytesVec<usize, T>>;

pub trait Bits: BytesVecValue + Copy {
    fn bits(&self) -> u64;
    fn as_f64(&self) -> Option<f64> {
        None
    }
}
impl Bits for u64 {
    fn bits(&self) -> u64 {
        *self
    }
}
impl Bits for usize {
    fn bits(&self) -> u64 {
        *self as u64
    }
}
impl Bits for f32 {
    fn bits(&self) -> u64 {
        self.to_bits() as u64
    }
    fn as_f64(&self) -> Option<f64> {
        Some(*self as f64)
    }
}
impl Bits for f64 {
    fn bits(&self) -> u64 {
        self.to_bits()
    }
    fn as_f64(&self) -> Option<f64> {
        Some(*self)
    }
}

type MethodFn<T> = fn(&mut Out<T>, usize, &Srcs, &Exit) -> vecdb::Result<()>;

#[derive(Clone, Copy, Debug, PartialEq, Eq, Hash)]
pub enum Step {
    Append(usize),
    /// truncate to len - k, then append k + 1 different values
    Regrow(usize),
    Same,
}

#[derive(Clone, Debug)]
pub struct Plan {
    pub steps: Vec<Step>,
    /// per step: 0 => max_from 0, 1 => m/2, 2 => m
    pub from_choice: Vec<u8>,
    /// batch limit in elements (0 = production)
    pub batch: usize,
    /// 0 none, 1 write after each compute, 2 re-import after each compute, 3 redundant second call
    pub between: u8,
}

fn values(len: usize, salt: u64) -> Vec<u64> {
    const ALPHA: [u64; 5] = [5, 0, 3, 9, 4];
    (0..len as u64).map(|i| ALPHA[((i + salt * 2) % 5) as usize] + (salt % 2) * ((i + 1) % 2)).collect()
}

pub struct CaseResult {
    pub bad: Option<(String, String)>,
    pub undefined: bool,
    pub rounding: bool,
    pub outcome: u64,
}

fn run_case<T: Bits>(method: MethodFn<T>, plan: &Plan, dir: &Path, scratch_dir: &Path) -> CaseResult
where
    Out<T>: ImportableVec,
{
    let mut res = CaseResult {
        bad: None,
        undefined: false,
        rounding: false,
        outcome: 0,
    };
    let exit = Exit::new();
    let srcs = Srcs::new();
    let mut db = Some(Database::open(dir).expect("open"));
    let mut out: Option<Out<T>> = Some(Out::<T>::import(db.as_ref().unwrap(), "out", Version::ONE).expect("import"));
    let mut vals = values(3, 0);
    let mut prev_vals: Vec<u64> = vec![];
    let mut prev_scratch: Vec<u64> = vec![];
    let mut salt = 0u64;
    let saved = threshold(MAX_CACHE_SIZE_CELL);
    let mut outcome_acc: Vec<u64> = Vec::new();

    for (si, step) in std::iter::once(&Step::Same).chain(plan.steps.iter()).enumerate() {
        if si > 0 {
            prev_vals = vals.clone();
            match step {
                Step::Append(k) => {
                    let n = vals.len();
                    let more = values(n + k, salt);
                    vals.extend_from_slice(&more[n..]);
                }
                Step::Regrow(k) => {
                    salt += 1;
                    let keep = vals.len().saturating_sub(*k);
                    vals.truncate(keep);
                    let more = values(keep + k + 1, salt);
                    vals.extend_from_slice(&more[keep..]);
                }
                Step::Same => {}
            }
        }
        srcs.set(&vals);

        // from-scratch result over the current sources (production batch size)
        let fresh = guarded(|| -> Result<Vec<T>, String> {
            let _ = std::fs::remove_dir_all(scratch_dir);
            std::fs::create_dir_all(scratch_dir).unwrap();
            let fdb = Database::open(scratch_dir).map_err(|e| format!("{e:?}"))?;
            let mut f = Out::<T>::import(&fdb, "fresh", Version::ONE).map_err(|e| format!("{e:?}"))?;
            method(&mut f, 0, &srcs, &exit).map_err(|e| format!("{e:?}"))?;
            Ok(f.collect())
        });
        let scratch: Vec<T> = match fresh {
            Ok(Ok(v)) => v,
            _ => {
                res.undefined = true;
                break;
            }
        };
        let sbits: Vec<u64> = scratch.iter().map(|x| x.bits()).collect();

        // starting index: no greater than the first changed source index, the first
        // changed from-scratch output index, and the previous result length
        let u = prev_vals
            .iter()
            .zip(vals.iter())
            .position(|(a, b)| a != b)
            .unwrap_or(prev_vals.len().min(vals.len()));
        let sfc = prev_scratch
            .iter()
            .zip(sbits.iter())
            .position(|(a, b)| a != b)
            .unwrap_or(prev_scratch.len().min(sbits.len()));
        let cur_len = out.as_ref().unwrap().len();
        let m = u.min(sfc).min(cur_len);
        let choice = if si == 0 { 0 } else { plan.from_choice[si - 1] };
        let mf = match choice {
            0 => 0,
            1 => m / 2,
            _ => m,
        };

        if plan.batch > 0 {
            set_threshold(MAX_CACHE_SIZE_CELL, plan.batch * size_of::<T>());
        }
        let rounds = if plan.between == 3 { 2 } else { 1 };
        let mut failed = None;
        for _ in 0..rounds {
            let r = guarded(|| method(out.as_mut().unwrap(), mf, &srcs, &exit));
            match r {
                Ok(Ok(())) => {}
                Ok(Err(e)) => failed = Some(format!("error:{}", format!("{e:?}").split([' ', '(', '{']).next().unwrap_or(""))),
                Err(p) => failed = Some(format!("panic:{}", p.split(": ").next().unwrap_or("?"))),
            }
        }
        set_threshold(MAX_CACHE_SIZE_CELL, saved);
        if let Some(f) = failed {
            res.bad = Some((
                f.clone(),
                format!("incremental call failed ({f}) at step {si} (max_from {mf}) although the from-scratch run succeeds; sources {vals:?}"),
            ));
            break;
        }
        match plan.between {
            1 => {
                let _ = out.as_mut().unwrap().write();
            }
            2 => {
                let o = out.as_mut().unwrap();
                let _ = o.flush();
                let _ = db.as_ref().unwrap().flush();
                out = None;
                db = None;
                db = Some(Database::open(dir).expect("reopen"));
                out = Some(Out::<T>::import(db.as_ref().unwrap(), "out", Version::ONE).expect("reimport"));
            }
            _ => {}
        }
        let got: Vec<T> = out.as_ref().unwrap().collect();
        let gbits: Vec<u64> = got.iter().map(|x| x.bits()).collect();
        outcome_acc.extend_from_slice(&gbits);
        if gbits != sbits {
            // floating point: a difference below 1e-6 relative is rounding, outside the property
            let close = got.len() == scratch.len()
                && got.iter().zip(scratch.iter()).all(|(a, b)| match (a.as_f64(), b.as_f64()) {
                    (Some(x), Some(y)) => {
                        (x.is_nan() && y.is_nan()) || x == y || ((x - y).abs() <= 1e-6 * x.abs().max(y.abs()))
                    }
                    _ => a.bits() == b.bits(),
                });
            if close {
                res.rounding = true;
            } else {
                let first = gbits.iter().zip(&sbits).position(|(a, b)| a != b).unwrap_or(gbits.len().min(sbits.len()));
                let div = if got.len() != scratch.len() { "len" } else { "values" };
                res.bad = Some((
                    div.into(),
                    format!(
                        "step {si} (max_from {mf}, first changed source index {u}): stored result has {} elements, from scratch {}; first difference at {first}: {:?} vs {:?}; sources {vals:?} (before: {prev_vals:?})",
                        got.len(),
                        scratch.len(),
                        got.get(first),
                        scratch.get(first)
                    ),
                ));
                break;
            }
        }
        prev_scratch = sbits;
    }
    set_threshold(MAX_CACHE_SIZE_CELL, saved);
    res.outcome = hash64(&outcome_acc);
    res
}

struct Entry {
    name: &'static str,
    family: &'static str,
    run: Box<dyn Fn(&Plan, &Path, &Path) -> CaseResult + Sync>,
}

fn entry<T: Bits>(name: &'static str, family: &'static str, m: MethodFn<T>) -> Entry
where
    Out<T>: ImportableVec,
{
    Entry {
        name,
        family,
        run: Box::new(move |p, d, s| run_case::<T>(m, p, d, s)),
    }
}

fn catalogue() -> Vec<Entry> {
    let mut v: Vec<Entry> = Vec::new();
    // ---- transforms
    v.push(entry::<u64>("compute_to", "transforms", |o, mf, s, e| {
        o.compute_to(mf, s.a.len(), Version::ONE, |i| (i, i as u64 * 7 + 1), e)
    }));
    v.push(entry::<u64>("compute_range", "transforms", |o, mf, s, e| {
        o.compute_range(mf, &s.a, |i| (i, i as u64 * 5 + 2), e)
    }));
    v.push(entry::<usize>("compute_from_index", "transforms", |o, mf, s, e| o.compute_from_index(mf, &s.a, e)));
    v.push(entry::<u64>("compute_transform", "transforms", |o, mf, s, e| {
        o.compute_transform(mf, &s.a, |(i, a, ..)| (i, a * 3 + i as u64), e)
    }));
    v.push(entry::<u64>("compute_transform2", "transforms", |o, mf, s, e| {
        o.compute_transform2(mf, &s.a, &s.b, |(i, a, b, ..)| (i, a * 5 + b), e)
    }));
    v.push(entry::<u64>("compute_binary", "transforms", |o, mf, s, e| {
        o.compute_binary::<u64, u64, vecdb::Plus>(mf, &s.a, &s.b, e)
    }));
    v.push(entry::<u64>("compute_transform3", "transforms", |o, mf, s, e| {
        o.compute_transform3(mf, &s.a, &s.b, &s.c, |(i, a, b, c, ..)| (i, a * 100 + b * 10 + c), e)
    }));
    v.push(entry::<u64>("compute_transform4", "transforms", |o, mf, s, e| {
        o.compute_transform4(mf, &s.a, &s.b, &s.c, &s.big, |(i, a, b, c, d, ..)| (i, a + b * 2 + c * 3 + d), e)
    }));
    // ---- arithmetic
    v.push(entry::<u64>("compute_add", "arithmetic", |o, mf, s, e| o.compute_add(mf, &s.a, &s.b, e)));
    v.push(entry::<u64>("compute_subtract", "arithmetic", |o, mf, s, e| o.compute_subtract(mf, &s.big, &s.a, e)));
    v.push(entry::<u64>("compute_multiply", "arithmetic", |o, mf, s, e| o.compute_multiply(mf, &s.a, &s.b, e)));
    v.push(entry::<u64>("compute_divide", "arithmetic", |o, mf, s, e| o.compute_divide(mf, &s.big, &s.b, e)));
    v.push(entry::<f64>("compute_percentage", "arithmetic", |o, mf, s, e| o.compute_percentage(mf, &s.a32, &s.b32, e)));
    v.push(entry::<f64>("compute_percentage_difference", "arithmetic", |o, mf, s, e| {
        o.compute_percentage_difference(mf, &s.a32, &s.b32, e)
    }));
    // ---- cumulative
    v.push(entry::<u64>("compute_cumulative", "cumulative", |o, mf, s, e| o.compute_cumulative(mf, &s.a, e)));
    v.push(entry::<u64>("compute_cumulative_binary", "cumulative", |o, mf, s, e| {
        o.compute_cumulative_binary(mf, &s.a, &s.b, e)
    }));
    v.push(entry::<u64>("compute_cumulative_transformed_binary", "cumulative", |o, mf, s, e| {
        o.compute_cumulative_transformed_binary(mf, &s.a, &s.b, |a, b| a * 2 + b, e)
    }));
    v.push(entry::<usize>("compute_cumulative_count", "cumulative", |o, mf, s, e| {
        o.compute_cumulative_count(mf, &s.a, |x| *x > 2, e)
    }));
    v.push(entry::<usize>("compute_rolling_count(w=2)", "cumulative", |o, mf, s, e| {
        o.compute_rolling_count(mf, &s.a, 2, |x| *x > 2, e)
    }));
    v.push(entry::<usize>("compute_rolling_count(w=1)", "cumulative", |o, mf, s, e| {
        o.compute_rolling_count(mf, &s.a, 1, |x| *x > 2, e)
    }));
    v.push(entry::<usize>("compute_rolling_count(w=9)", "cumulative", |o, mf, s, e| {
        o.compute_rolling_count(mf, &s.a, 9, |x| *x > 2, e)
    }));
    v.push(entry::<usize>("compute_cumulative_count_from", "cumulative", |o, mf, s, e| {
        o.compute_cumulative_count_from(mf, &s.a, 1, |x| *x > 2, e)
    }));
    // ---- lookback
    v.push(entry::<f32>("compute_previous_value(2)", "lookback", |o, mf, s, e| o.compute_previous_value(mf, &s.a16, 2, e)));
    v.push(entry::<f32>("compute_previous_value(0)", "lookback", |o, mf, s, e| o.compute_previous_value(mf, &s.a16, 0, e)));
    v.push(entry::<u64>("compute_change(1)", "lookback", |o, mf, s, e| o.compute_change(mf, &s.a, 1, e)));
    v.push(entry::<u64>("compute_change(3)", "lookback", |o, mf, s, e| o.compute_change(mf, &s.a, 3, e)));
    v.push(entry::<f32>("compute_ratio_change", "lookback", |o, mf, s, e| o.compute_ratio_change(mf, &s.b16, 2, e)));
    v.push(entry::<f32>("compute_percentage_change", "lookback", |o, mf, s, e| o.compute_percentage_change(mf, &s.b16, 1, e)));
    v.push(entry::<f64>("compute_rolling_from_window_starts", "lookback", |o, mf, s, e| {
        o.compute_rolling_from_window_starts(mf, &s.starts, &s.a32, e, |a, b| a - b * 0.5)
    }));
    v.push(entry::<f64>("compute_rolling_ratio_change", "lookback", |o, mf, s, e| {
        o.compute_rolling_ratio_change(mf, &s.starts, &s.b32, e)
    }));
    v.push(entry::<f64>("compute_rolling_percentage_change", "lookback", |o, mf, s, e| {
        o.compute_rolling_percentage_change(mf, &s.starts, &s.b32, e)
    }));
    v.push(entry::<f64>("compute_rolling_change", "lookback", |o, mf, s, e| o.compute_rolling_change(mf, &s.starts, &s.a32, e)));
    v.push(entry::<f32>("compute_cagr", "lookback", |o, mf, s, e| o.compute_cagr(mf, &s.b16, 2, e)));
    v.push(entry::<u64>("compute_lookback", "lookback", |o, mf, s, e| o.compute_lookback(mf, &s.starts, &s.a, e)));
    // ---- aggregates
    v.push(entry::<u64>("compute_sum_of_others", "aggregates", |o, mf, s, e| o.compute_sum_of_others(mf, &[&s.a, &s.b, &s.c], e)));
    v.push(entry::<u64>("compute_min_of_others", "aggregates", |o, mf, s, e| o.compute_min_of_others(mf, &[&s.a, &s.b, &s.c], e)));
    v.push(entry::<u64>("compute_max_of_others", "aggregates", |o, mf, s, e| o.compute_max_of_others(mf, &[&s.a, &s.c], e)));
    v.push(entry::<u64>("compute_sum_from_indexes", "aggregates", |o, mf, s, e| {
        o.compute_sum_from_indexes(mf, &s.first, &s.count, &s.fine, e)
    }));
    v.push(entry::<usize>("compute_count_from_indexes", "aggregates", |o, mf, s, e| {
        o.compute_count_from_indexes(mf, &s.first, &s.fine, e)
    }));
    v.push(entry::<u64>("compute_filtered_sum_from_indexes", "aggregates", |o, mf, s, e| {
        o.compute_filtered_sum_from_indexes(mf, &s.first, &s.count, &s.fine, |v| v % 2 == 1, e)
    }));
    v.push(entry::<usize>("compute_filtered_count_from_indexes", "aggregates", |o, mf, s, e| {
        o.compute_filtered_count_from_indexes(mf, &s.first, &s.fine, |a| a % 2 == 0, e)
    }));
    v.push(entry::<u64>("compute_indirect_sequential", "transforms", |o, mf, s, e| {
        o.compute_indirect_sequential(mf, &s.first, &s.fine, e)
    }));
    // ---- statistics
    for (name, w) in [("compute_max(w=1)", 1usize), ("compute_max(w=2)", 2), ("compute_max(w=9)", 9)] {
        let _ = (name, w);
    }
    v.push(entry::<u64>("compute_max(w=1)", "statistics", |o, mf, s, e| o.compute_max(mf, &s.a, 1, e)));
    v.push(entry::<u64>("compute_max(w=2)", "statistics", |o, mf, s, e| o.compute_max(mf, &s.a, 2, e)));
    v.push(entry::<u64>("compute_max(w=9)", "statistics", |o, mf, s, e| o.compute_max(mf, &s.a, 9, e)));
    v.push(entry::<u64>("compute_min(w=2)", "statistics", |o, mf, s, e| o.compute_min(mf, &s.a, 2, e)));
    v.push(entry::<u64>("compute_min(w=3)", "statistics", |o, mf, s, e| o.compute_min(mf, &s.a, 3, e)));
    v.push(entry::<u64>("compute_sum(w=1)", "statistics", |o, mf, s, e| o.compute_sum(mf, &s.a, 1, e)));
    v.push(entry::<u64>("compute_sum(w=2)", "statistics", |o, mf, s, e| o.compute_sum(mf, &s.a, 2, e)));
    v.push(entry::<u64>("compute_sum(w=9)", "statistics", |o, mf, s, e| o.compute_sum(mf, &s.a, 9, e)));
    v.push(entry::<u64>("compute_rolling_sum", "statistics", |o, mf, s, e| o.compute_rolling_sum(mf, &s.starts, &s.a, e)));
    v.push(entry::<u64>("compute_rolling_max_from_starts", "statistics", |o, mf, s, e| {
        o.compute_rolling_max_from_starts(mf, &s.starts, &s.a, e)
    }));
    v.push(entry::<u64>("compute_rolling_min_from_starts", "statistics", |o, mf, s, e| {
        o.compute_rolling_min_from_starts(mf, &s.starts, &s.a, e)
    }));
    v.push(entry::<f64>("compute_rolling_ema", "statistics", |o, mf, s, e| o.compute_rolling_ema(mf, &s.starts, &s.a32, e)));
    v.push(entry::<f64>("compute_rolling_rma", "statistics", |o, mf, s, e| o.compute_rolling_rma(mf, &s.starts, &s.a32, e)));
    v.push(entry::<f32>("compute_sma(2)", "statistics", |o, mf, s, e| o.compute_sma(mf, &s.a16, 2, e)));
    v.push(entry::<f32>("compute_sma_(3,min_i=1)", "statistics", |o, mf, s, e| o.compute_sma_(mf, &s.a16, 3, e, Some(1))));
    v.push(entry::<f32>("compute_rolling_median(3)", "statistics", |o, mf, s, e| o.compute_rolling_median(mf, &s.a16, 3, e)));
    v.push(entry::<f32>("compute_ema(2)", "statistics", |o, mf, s, e| o.compute_ema(mf, &s.a16, 2, e)));
    v.push(entry::<f32>("compute_ema_(3,min_i=1)", "statistics", |o, mf, s, e| o.compute_ema_(mf, &s.a16, 3, e, Some(1))));
    v.push(entry::<f32>("compute_rma(2)", "statistics", |o, mf, s, e| o.compute_rma(mf, &s.a16, 2, e)));
    v.push(entry::<u64>("compute_all_time_high", "statistics", |o, mf, s, e| o.compute_all_time_high(mf, &s.a, e)));
    v.push(entry::<u64>("compute_all_time_low", "statistics", |o, mf, s, e| o.compute_all_time_low(mf, &s.a, e)));
    v.push(entry::<u64>("compute_all_time_low_(exclude_default)", "statistics", |o, mf, s, e| {
        o.compute_all_time_low_(mf, &s.a, e, true)
    }));
    v.push(entry::<u64>("compute_all_time_high_from(1)", "statistics", |o, mf, s, e| o.compute_all_time_high_from(mf, &s.a, 1, e)));
    v.push(entry::<u64>("compute_all_time_low_from(2)", "statistics", |o, mf, s, e| o.compute_all_time_low_from(mf, &s.a, 2, e)));
    v
}

fn plans(quick: bool) -> Vec<Plan> {
    let steps_alpha = [Step::Append(1), Step::Append(2), Step::Regrow(1), Step::Regrow(2), Step::Same];
    let n_steps = if quick { 2 } else { 3 };
    let mut seqs: Vec<Vec<Step>> = vec![vec![]];
    for _ in 0..n_steps {
        let mut next = Vec::new();
        for s in &seqs {
            for st in steps_alpha {
                let mut t = s.clone();
                t.push(st);
                next.push(t);
            }
        }
        seqs = next;
    }
    let mut out = Vec::new();
    for steps in seqs {
        // all starting-index choices per step
        let n = steps.len();
        for code in 0..3usize.pow(n as u32) {
            let mut c = code;
            let from_choice: Vec<u8> = (0..n)
                .map(|_| {
                    let x = (c % 3) as u8;
                    c /= 3;
                    x
                })
                .collect();
            // quick: the same choice at every step
            if quick && from_choice.windows(2).any(|w| w[0] != w[1]) {
                continue;
            }
            let batches: &[usize] = if quick { &[0, 1, 2] } else { &[0, 1, 2, 3] };
            for &batch in batches {
                let betweens: &[u8] = if quick && batch != 0 { &[0] } else { &[0, 1, 2, 3] };
                for &between in betweens {
                    out.push(Plan {
                        steps: steps.clone(),
                        from_choice: from_choice.clone(),
                        batch,
                        between,
                    });
                }
            }
        }
    }
    out
}

pub fn add(run: &mut Run, kf: &KnownFindings, tier: &str, wall: u64) {
    let classify = kf.classifier("C06");
    let quick = tier == "quick";
    let cat = catalogue();
    let plans = plans(quick);
    let root = Scratch::new("eagerx");
    let t0 = std::time::Instant::now();
    let mut cases = 0u64;
    let mut undefined = 0u64;
    let mut rounding = 0u64;
    let mut outcomes: HashSet<u64> = HashSet::new();
    let mut per_method: BTreeMap<&'static str, u64> = BTreeMap::new();
    let mut found: BTreeMap<String, (String, String)> = BTreeMap::new();
    let mut capped = false;
    // Thorough: the quick tier's plans for every method first (completely), then the longer
    // plans plan by plan across all methods, so that a wall cap cuts every method at the same
    // plan and the evidence can say which prefix of the plan list was completed everywhere.
    let quick_plans = if quick { Vec::new() } else { self::plans(true) };
    let order: Vec<(usize, &Plan)> = {
        let mut v: Vec<(usize, &Plan)> = Vec::new();
        for ei in 0..cat.len() {
            for p in quick_plans.iter() {
                v.push((ei, p));
            }
        }
        if quick {
            for ei in 0..cat.len() {
                for p in &plans {
                    v.push((ei, p));
                }
            }
        } else {
            for p in &plans {
                for ei in 0..cat.len() {
                    v.push((ei, p));
                }
            }
        }
        v
    };
    let mut long_plans_done = 0usize;
    #[allow(clippy::never_loop)]
    'outer: loop {
        for (n, (ei, p)) in order.iter().enumerate() {
            let e = &cat[*ei];
            if t0.elapsed().as_secs() > wall {
                capped = true;
                break 'outer;
            }
            if !quick && n >= quick_plans.len() * cat.len() {
                long_plans_done = (n - quick_plans.len() * cat.len()) / cat.len();
            }
            let d = root.sub("case");
            let s = root.sub("fresh");
            let r = (e.run)(p, &d, &s);
            cases += 1;
            *per_method.entry(e.name).or_default() += 1;
            outcomes.insert(r.outcome ^ hash64(&e.name));
            undefined += r.undefined as u64;
            rounding += r.rounding as u64;
            if let Some((div, detail)) = r.bad {
                // situation: how the incremental call differed from a plain append
                let regrow = p.steps.iter().any(|s| matches!(s, Step::Regrow(_)));
                let sit = format!(
                    "{}{}{}",
                    if regrow { "regrow;" } else { "append_only;" },
                    if p.batch > 0 { "small_batches;" } else { "" },
                    match p.between {
                        1 => "write_between;",
                        2 => "reimport_between;",
                        3 => "redundant_call;",
                        _ => "",
                    }
                );
                found
                    .entry(format!("{}|{}|{sit}|{div}", e.family, e.name))
                    .or_insert((format!("{p:?}"), detail));
            }
        }
        if !quick {
            long_plans_done = plans.len();
        }
        break;
    }
    run.cov_add("states", outcomes.len() as u64);
    run.cov_add("transitions", cases);
    run.cov_add("traces_validated_against_impl", cases);
    run.cov_add("evaluations", cases);
    run.cov_add("distinct_nontrivial", outcomes.len() as u64);
    run.cov("exhaustive", json!(!capped));
    let mut ex = run.coverage.remove("explorations").unwrap_or_else(|| json!([]));
    ex.as_array_mut().unwrap().push(json!({
        "label": "eagerx",
        "methods_in_catalogue": cat.len(),
        "plans_per_method": plans.len(),
        "cases_executed": cases,
        "cases_per_method": per_method,
        "from_scratch_run_undefined (skipped)": undefined,
        "float_rounding_only (not judged)": rounding,
        "cap_hit": capped,
        "thorough: quick-tier plans completed for every method before the longer ones": !quick,
        "thorough: longer plans completed for every method (prefix of the plan list)": long_plans_done,
        "not_in_catalogue": ["compute_rolling_average", "compute_rolling_sd", "compute_expanding_sd", "compute_rolling_ratio", "compute_zscore", "compute_weighted_average_of_others", "compute_first_per_index"],
    }));
    run.cov("explorations", ex);
    run.push_sample(json!({"exploration": "eagerx", "method": "compute_sum(w=2)", "plan": format!("{:?}", plans[plans.len() / 2])}));
    for (sig, (plan, detail)) in found {
        let v = Violation {
            property: "C06".into(),
            signature: sig,
            detail,
        };
        let d = classify(&v);
        if d == Disposition::Ignore {
            continue;
        }
        run.add_found(
            Found {
                path: vec![],
                shown: vec![plan],
                violation: v,
                known: d == Disposition::Known,
            },
            json!({"engine": "eagerx"}),
        );
    }
    run.assumptions.push("eagerx: oracle = the same method run from scratch on a fresh EagerVec over the final sources with the production batch limit; sources are in-memory vectors; output format BytesVec".into());
    run.assumptions.push("eagerx: starting index <= min(first changed source index, first changed from-scratch output index, previous result length)".into());
}
