//! importx — the complete cross product of (stored format, requested format, stored
//! version, requested version, creating entry point, reopening entry point, contents,
//! same process / after reopen) for vector import (C14).

use std::collections::BTreeMap;

use rawdb::Database;
use serde_json::json;
use vecdb::{
    AnyStoredVec, AnyVec, BytesVec, ImportOptions, ImportableVec, LZ4Vec, PcoVec, ReadableVec,
    Version, WritableVec, ZeroCopyVec, ZstdVec,
};

use crate::{
    report::{KnownFindings, Run},
    scratch::Scratch,
    seqx::{Disposition, Found, Violation, guarded},
};

const FORMATS: [&str; 5] = ["bytes", "zerocopy", "pco", "lz4", "zstd"];
const ENTRIES: [&str; 4] = ["import", "forced_import", "import_with", "forced_import_with"];
const CONTENTS: [&str; 4] = ["empty", "three", "two_pages", "holes"];
const NAME: &str = "v";

fn evariant(e: &vecdb::Error) -> String {
    let s = format!("{e:?}");
    s.split([' ', '(', '{']).next().unwrap_or("").to_string()
}

#[derive(Debug, Clone, PartialEq)]
struct Seen {
    items: Vec<Option<u32>>,
    holes: Vec<usize>,
}

fn values(kind: &str) -> Vec<u32> {
    match kind {
        "empty" => vec![],
        "three" | "holes" => vec![11, 22, 33],
        "two_pages" => (0..4100u32).map(|i| i * 3 + 1).collect(),
        _ => unreachable!(),
    }
}

macro_rules! with_fmt {
    ($fmt:expr, $f:ident ( $($a:expr),* )) => {
        match $fmt {
            "bytes" => $f::<BytesVec<usize, u32>>($($a),*),
            "zerocopy" => $f::<ZeroCopyVec<usize, u32>>($($a),*),
            "pco" => $f::<PcoVec<usize, u32>>($($a),*),
            "lz4" => $f::<LZ4Vec<usize, u32>>($($a),*),
            "zstd" => $f::<ZstdVec<usize, u32>>($($a),*),
            _ => unreachable!(),
        }
    };
}

fn open_via<V: ImportableVec>(db: &Database, entry: &str, version: u32) -> vecdb::Result<V> {
    let v = Version::new(version);
    match entry {
        "import" => V::import(db, NAME, v),
        "forced_import" => V::forced_import(db, NAME, v),
        "import_with" => V::import_with(ImportOptions::new(db, NAME, v)),
        "forced_import_with" => V::forced_import_with(ImportOptions::new(db, NAME, v)),
        _ => unreachable!(),
    }
}

trait Holey {
    fn del(&mut self, _i: usize) {}
    fn holes_(&self) -> Vec<usize> {
        vec![]
    }
}
impl Holey for BytesVec<usize, u32> {
    fn del(&mut self, i: usize) {
        self.delete_at(i)
    }
    fn holes_(&self) -> Vec<usize> {
        self.holes().iter().copied().collect()
    }
}
impl Holey for ZeroCopyVec<usize, u32> {
    fn del(&mut self, i: usize) {
        self.delete_at(i)
    }
    fn holes_(&self) -> Vec<usize> {
        self.holes().iter().copied().collect()
    }
}
impl Holey for PcoVec<usize, u32> {}
impl Holey for LZ4Vec<usize, u32> {}
impl Holey for ZstdVec<usize, u32> {}

fn create<V>(db: &Database, entry: &str, version: u32, contents: &str) -> Result<Seen, String>
where
    V: ImportableVec + WritableVec<usize, u32> + ReadableVec<usize, u32> + Holey,
{
    let mut v: V = open_via(db, entry, version).map_err(|e| evariant(&e))?;
    for x in values(contents) {
        v.push(x);
    }
    if contents == "holes" {
        v.del(1);
    }
    v.flush().map_err(|e| evariant(&e))?;
    db.flush().map_err(|e| format!("db flush {e:?}"))?;
    Ok(observe(&v))
}

fn observe<V: ReadableVec<usize, u32> + Holey>(v: &V) -> Seen {
    let holes = v.holes_();
    let dense = v.collect();
    // rebuild the holed view: range reads skip deleted slots
    let len = v.len();
    let mut items = Vec::with_capacity(len);
    let mut it = dense.into_iter();
    for i in 0..len {
        if holes.contains(&i) {
            items.push(None);
        } else {
            items.push(it.next());
        }
    }
    Seen { items, holes }
}

/// Reopens and reports (observation, and — for an "empty" result — whether the vector
/// then behaves like an empty vector: three pushes read back as three values).
///
/// Third step: what was pushed into the "empty" vector is flushed, and the vector is imported
/// once more through the same entry point with the same version — a matching import, which
/// must return those three values (`survives`).
fn reopen<V>(db: &Database, entry: &str, version: u32) -> Result<(Seen, bool, Option<String>), String>
where
    V: ImportableVec + WritableVec<usize, u32> + ReadableVec<usize, u32> + Holey,
{
    let mut v: V = open_via(db, entry, version).map_err(|e| evariant(&e))?;
    let seen = observe(&v);
    let mut behaves_empty = false;
    let mut third = None;
    if seen.items.is_empty() {
        for x in [7u32, 8, 9] {
            v.push(x);
        }
        behaves_empty = v.holes_().is_empty() && v.collect() == vec![7, 8, 9];
        if behaves_empty {
            v.flush().map_err(|e| evariant(&e))?;
            db.flush().map_err(|e| format!("db flush {e:?}"))?;
            drop(v);
            third = Some(match open_via::<V>(db, entry, version) {
                Ok(again) => {
                    let s = observe(&again);
                    if s.items == vec![Some(7), Some(8), Some(9)] && s.holes.is_empty() {
                        "ok".to_string()
                    } else {
                        format!("returned len {} holes {:?}", s.items.len(), s.holes)
                    }
                }
                Err(e) => format!("failed with {}", evariant(&e)),
            });
        } else {
            let _ = v.truncate_if_needed_at(0);
        }
    }
    Ok((seen, behaves_empty, third))
}

fn region_names(db: &Database) -> Vec<String> {
    let mut v: Vec<String> = db.regions().id_to_index().keys().cloned().collect();
    v.sort();
    v
}

fn region_dump(db: &Database) -> BTreeMap<String, Vec<u8>> {
    let regs: Vec<rawdb::Region> = db
        .regions()
        .index_to_region()
        .iter()
        .flatten()
        .cloned()
        .collect();
    regs.into_iter()
        .map(|r| {
            let n = r.meta().id().to_string();
            let b = r.create_reader().read_all().to_vec();
            (n, b)
        })
        .collect()
}

#[derive(Debug, Clone)]
struct Case {
    sfmt: &'static str,
    rfmt: &'static str,
    sver: u32,
    rver: u32,
    centry: &'static str,
    rentry: &'static str,
    contents: &'static str,
    reopen_db: bool,
    /// hold a handle to the data region during the re-import (blocked removal)
    hold: bool,
}

fn family(f: &str) -> &'static str {
    if f == "bytes" || f == "zerocopy" {
        "raw"
    } else {
        "compressed"
    }
}

fn run_case(c: &Case, dir: &std::path::Path) -> Vec<Violation> {
    let mut out = Vec::new();
    let class = format!(
        "{}->{}|{}->{}",
        family(c.sfmt),
        family(c.rfmt),
        if c.centry.starts_with("forced") { "forced" } else { "plain" },
        if c.rentry.starts_with("forced") { "forced" } else { "plain" },
    );
    let mut viol = |div: &str, detail: String| {
        out.push(Violation {
            property: "C14".into(),
            signature: format!(
                "{class}|{}|{}|{div}",
                if c.sfmt == c.rfmt { "same_format" } else { "other_format" },
                if c.sver == c.rver { "same_version" } else { "other_version" },
            ),
            detail: format!("{detail} [{c:?}]"),
        });
    };
    let r = guarded(|| -> Result<(), String> {
        let mut db = Database::open(dir).map_err(|e| format!("{e:?}"))?;
        let stored: Seen = with_fmt!(c.sfmt, create(&db, c.centry, c.sver, c.contents))?;
        if c.reopen_db {
            drop(db);
            db = Database::open(dir).map_err(|e| format!("{e:?}"))?;
        }
        let before_names = region_names(&db);
        let before_dump = region_dump(&db);
        let held = if c.hold {
            db.get_region(&format!("{NAME}/usize"))
        } else {
            None
        };
        let got = with_fmt!(c.rfmt, reopen(&db, c.rentry, c.rver));
        drop(held);
        let matches = c.sfmt == c.rfmt && c.sver == c.rver;
        let forced = c.rentry.starts_with("forced");
        match (matches, forced, got) {
            (true, _, Ok((seen, _, _))) => {
                if seen != stored {
                    viol(
                        "contents_lost",
                        format!(
                            "version and format match but the re-import returned len {} holes {:?}, stored len {} holes {:?}",
                            seen.items.len(), seen.holes, stored.items.len(), stored.holes
                        ),
                    );
                }
            }
            (true, _, Err(e)) => viol(
                &format!("error:{e}"),
                format!("version and format match but the re-import failed with {e}"),
            ),
            (false, false, Ok((seen, _, _))) => viol(
                "accepted",
                format!("plain import of mismatching data succeeded (len {})", seen.items.len()),
            ),
            (false, false, Err(e)) => {
                if !e.starts_with("Different") {
                    viol(&format!("error_variant:{e}"), format!("expected a version/format error, got {e}"));
                }
                if region_names(&db) != before_names || region_dump(&db) != before_dump {
                    viol("data_touched", "plain import failed but regions or their bytes changed".into());
                }
            }
            (false, true, Ok((seen, behaves_empty, third))) => {
                if let Some(t) = third.filter(|t| t != "ok") {
                    viol(
                        "new_contents_lost_on_next_import",
                        format!("after the forced import discarded the old data, three values were pushed and flushed; importing again with the same version and format {t}"),
                    );
                }
                if c.hold {
                    viol(
                        "discarded_while_referenced",
                        "forced import succeeded although the data region was still referenced".into(),
                    );
                }
                if !seen.items.is_empty() || !seen.holes.is_empty() {
                    viol(
                        "not_empty",
                        format!("forced import on a mismatch returned len {} holes {:?}", seen.items.len(), seen.holes),
                    );
                } else if !behaves_empty {
                    viol(
                        "stale_auxiliary_state",
                        "forced import returned an empty vector that does not behave like one (stale deleted slots or contents reappear after pushes)".into(),
                    );
                }
            }
            (false, true, Err(e)) => {
                if c.hold {
                    // blocked removal: must fail without discarding
                    if region_dump(&db) != before_dump {
                        viol("data_touched", format!("forced import failed with {e} but data changed"));
                    }
                } else {
                    viol(&format!("error:{e}"), format!("forced import on a mismatch failed with {e}"));
                }
            }
        }
        Ok(())
    });
    match r {
        Ok(Ok(())) => {}
        Ok(Err(e)) => viol("setup_error", e),
        Err(p) => viol(&format!("panic:{}", p.split(": ").next().unwrap_or("?")), p),
    }
    out
}

pub fn add(run: &mut Run, kf: &KnownFindings, tier: &str) {
    let classify = kf.classifier("C14");
    let root = Scratch::new("importx");
    // the full product takes about two seconds, so both tiers enumerate all of it
    let quick = false;
    let _ = tier;
    let mut cases = Vec::new();
    for sfmt in FORMATS {
        for rfmt in FORMATS {
            for sver in [1u32, 2] {
                for rver in [1u32, 2] {
                    for centry in ENTRIES {
                        for rentry in ENTRIES {
                            for contents in CONTENTS {
                                for reopen_db in [false, true] {
                                    if contents == "holes" && family(sfmt) != "raw" {
                                        continue;
                                    }
                                    // quick: the sub-product without the _with entry points
                                    // (same code path) and with one contents class per family
                                    if quick
                                        && (centry.ends_with("_with")
                                            || rentry.ends_with("_with")
                                            || contents == "two_pages" && family(sfmt) == "raw"
                                            || contents == "three" && family(sfmt) == "compressed")
                                    {
                                        continue;
                                    }
                                    cases.push(Case {
                                        sfmt,
                                        rfmt,
                                        sver,
                                        rver,
                                        centry,
                                        rentry,
                                        contents,
                                        reopen_db,
                                        hold: false,
                                    });
                                }
                            }
                        }
                    }
                }
            }
        }
    }
    // blocked removal: a handle on the data region held during a forced re-import
    for sfmt in FORMATS {
        for rfmt in FORMATS {
            for (sver, rver) in [(1u32, 2u32), (1, 1)] {
                if sfmt == rfmt && sver == rver {
                    continue;
                }
                for contents in ["three", "holes"] {
                    cases.push(Case {
                        sfmt,
                        rfmt,
                        sver,
                        rver,
                        centry: "import",
                        rentry: "forced_import",
                        contents,
                        reopen_db: false,
                        hold: true,
                    });
                }
            }
        }
    }
    let total = cases.len() as u64;
    let mut outcomes: BTreeMap<String, u64> = BTreeMap::new();
    for (i, c) in cases.iter().enumerate() {
        let d = root.sub("case");
        let vs = run_case(c, &d);
        *outcomes
            .entry(if vs.is_empty() { "ok".into() } else { vs[0].signature.clone() })
            .or_default() += 1;
        for v in vs {
            let disp = classify(&v);
            if disp == Disposition::Ignore {
                continue;
            }
            run.add_found(
                Found {
                    path: vec![(i / 65536) as u16, (i % 65536) as u16],
                    shown: vec![format!("{c:?}")],
                    violation: v,
                    known: disp == Disposition::Known,
                },
                json!({"engine": "importx", "case": format!("{c:?}")}),
            );
        }
        if i < 3 {
            run.push_sample(json!({"exploration": "importx", "case": format!("{c:?}")}));
        }
    }
    run.cov_add("states", total);
    run.cov_add("transitions", total);
    run.cov_add("traces_validated_against_impl", total);
    run.cov_add("evaluations", total);
    run.cov_add("distinct_nontrivial", total);
    run.cov("importx_outcome_classes", json!(outcomes));
    run.cov("exhaustive", json!(true));
    let mut e = run.coverage.remove("explorations").unwrap_or_else(|| json!([]));
    e.as_array_mut().unwrap().push(json!({
        "label": "importx",
        "cases": total,
        "axes": "stored format x requested format (5x5) x stored version x requested version (2x2) x creating entry point x reopening entry point x contents x same process / database reopened, plus blocked-removal variants",
        "quick_subset": quick,
    }));
    run.cov("explorations", e);
    run.assumptions.push("importx: lock and I/O errors during import are not injected (no fault seam for them); the clause 'never on lock or I/O errors' is covered only through the blocked-removal variants".into());
}
