//! lazyx — lazily computed vectors against their defining formulas, through every read
//! path, for all small source contents, mappings and ranges (C15).

use std::{
    collections::{BTreeMap, BTreeSet},
    sync::Arc,
};

use parking_lot::RwLock;
use serde_json::json;
use vecdb::{
    AnyVec, DeltaAvg, DeltaChange, DeltaRate, DeltaSub, LazyAggVec, LazyDeltaVec, LazyVecFrom1,
    LazyVecFrom2, LazyVecFrom3, ReadableBoxedVec, ReadableVec, VecValue, Version,
};

use crate::{
    report::{KnownFindings, Run},
    seqx::{Disposition, Found, Violation},
    vecreads::{Ctx, cursor_checks, generic},
    vecx::Val,
};

/// In-memory source vector whose contents the harness can change after lazy vectors
/// were built on it.
#[derive(Clone)]
pub struct MemVec<T> {
    data: Arc<RwLock<Vec<T>>>,
    name: &'static str,
}

impl<T: VecValue> MemVec<T> {
    pub fn new(name: &'static str, v: Vec<T>) -> Self {
        Self {
            data: Arc::new(RwLock::new(v)),
            name,
        }
    }
    pub fn set(&self, v: Vec<T>) {
        *self.data.write() = v;
    }
    pub fn boxed(&self) -> ReadableBoxedVec<usize, T> {
        Box::new(self.clone())
    }
}

impl<T: VecValue> AnyVec for MemVec<T> {
    fn version(&self) -> Version {
        Version::ONE
    }
    fn name(&self) -> &str {
        self.name
    }
    fn len(&self) -> usize {
        self.data.read().len()
    }
    fn index_type_to_string(&self) -> &'static str {
        "usize"
    }
    fn region_names(&self) -> Vec<String> {
        vec![]
    }
    fn value_type_to_size_of(&self) -> usize {
        size_of::<T>()
    }
    fn value_type_to_string(&self) -> &'static str {
        "T"
    }
}

impl<T: VecValue> ReadableVec<usize, T> for MemVec<T> {
    fn read_into_at(&self, from: usize, to: usize, buf: &mut Vec<T>) {
        let d = self.data.read();
        let to = to.min(d.len());
        if from < to {
            buf.extend_from_slice(&d[from..to]);
        }
    }
    fn for_each_range_dyn_at(&self, from: usize, to: usize, f: &mut dyn FnMut(T)) {
        let d = self.data.read();
        let to = to.min(d.len());
        if from < to {
            d[from..to].iter().cloned().for_each(f);
        }
    }
    fn fold_range_at<B, F: FnMut(B, T) -> B>(&self, from: usize, to: usize, init: B, f: F) -> B {
        let d = self.data.read();
        let to = to.min(d.len());
        if from < to {
            d[from..to].iter().cloned().fold(init, f)
        } else {
            init
        }
    }
    fn try_fold_range_at<B, E, F: FnMut(B, T) -> Result<B, E>>(
        &self,
        from: usize,
        to: usize,
        init: B,
        f: F,
    ) -> Result<B, E> {
        let d = self.data.read();
        let to = to.min(d.len());
        if from < to {
            d[from..to].iter().cloned().try_fold(init, f)
        } else {
            Ok(init)
        }
    }
}

fn f1(i: usize, a: u64) -> u64 {
    a * 7 + i as u64 * 1000
}
fn f2(i: usize, a: u64, b: u64) -> u64 {
    a * 100 + b * 3 + i as u64 * 10_000
}
fn f3(i: usize, a: u64, b: u64, c: u64) -> u64 {
    a * 1000 + b * 30 + c + i as u64 * 1_000_000
}

/// All sequences of the given length over `alphabet`.
fn sequences(alphabet: &[u64], len: usize) -> Vec<Vec<u64>> {
    let mut out = vec![vec![]];
    for _ in 0..len {
        let mut next = Vec::new();
        for s in &out {
            for a in alphabet {
                let mut t = s.clone();
                t.push(*a);
                next.push(t);
            }
        }
        out = next;
    }
    out
}

/// All monotone non-decreasing sequences `m` of length `n` with `m[h] <= bound(h)`.
fn monotone(n: usize, bound: &dyn Fn(usize) -> usize) -> Vec<Vec<usize>> {
    let mut out: Vec<Vec<usize>> = vec![vec![]];
    for h in 0..n {
        let mut next = Vec::new();
        for s in &out {
            let lo = s.last().copied().unwrap_or(0);
            for v in lo..=bound(h) {
                let mut t = s.clone();
                t.push(v);
                next.push(t);
            }
        }
        out = next;
    }
    out
}

struct Acc<'a> {
    run: &'a mut Run,
    classify: &'a (dyn Fn(&Violation) -> Disposition + Sync),
    vecs: u64,
    calls: u64,
    per_kind: BTreeMap<&'static str, u64>,
    distinct_expected: BTreeSet<u64>,
    n: usize,
}

impl<'a> Acc<'a> {
    fn check<T: Val, R: ReadableVec<usize, T>>(
        &mut self,
        kind: &'static str,
        situation: &str,
        v: &R,
        expected: &[T],
        case: String,
    ) {
        let contents: Vec<Option<T>> = expected.iter().map(|x| Some(*x)).collect();
        let len = contents.len();
        let mut bset: Vec<usize> = (0..=len + 1).collect();
        bset.push(usize::MAX);
        let mut cx = Ctx {
            viols: Vec::new(),
            calls: 0,
            class: kind,
            situation,
            db: None,
            seen_sigs: BTreeSet::new(),
            prop: "C15",
        };
        generic(&mut cx, "", v, &contents, &bset, true);
        cursor_checks(&mut cx, "", v, &contents, &bset);
        self.vecs += 1;
        self.calls += cx.calls;
        *self.per_kind.entry(kind).or_default() += 1;
        self.distinct_expected.insert(crate::seqx::hash64(&(
            kind,
            expected.iter().map(|x| x.bits()).collect::<Vec<_>>(),
        )));
        if self.n < 4 && len >= 2 {
            self.n += 1;
            self.run
                .push_sample(json!({"exploration": "lazyx", "kind": kind, "case": case.clone()}));
        }
        for viol in cx.viols {
            let d = (self.classify)(&viol);
            if d == Disposition::Ignore {
                continue;
            }
            self.run.add_found(
                Found {
                    path: vec![],
                    shown: vec![case.clone()],
                    violation: viol,
                    known: d == Disposition::Known,
                },
                json!({"engine": "lazyx", "case": case.clone()}),
            );
        }
    }
}

pub fn add(run: &mut Run, kf: &KnownFindings, tier: &str) {
    let classify = kf.classifier("C15");
    let max_len = if tier == "quick" { 3 } else { 7 };
    let alphabet: [u64; 3] = [0, 2, 5];
    let mut acc = Acc {
        run,
        classify: &classify,
        vecs: 0,
        calls: 0,
        per_kind: BTreeMap::new(),
        distinct_expected: BTreeSet::new(),
        n: 0,
    };

    // ---- transforms of one, two and three sources (including unequal lengths and
    //      sources that grow after the lazy vector was built)
    for len in 0..=max_len {
        for s in sequences(&alphabet, len) {
            let a = MemVec::new("a", vec![]);
            let lazy: LazyVecFrom1<usize, u64, usize, u64> =
                LazyVecFrom1::init("l1", Version::ONE, a.boxed(), |i, x| f1(i, x));
            // built on an empty source, which then grows to `s`
            a.set(s.clone());
            let exp: Vec<u64> = s.iter().enumerate().map(|(i, x)| f1(i, *x)).collect();
            acc.check("from1", "", &lazy, &exp, format!("from1 source={s:?}"));
        }
    }
    let l2 = max_len.min(4);
    for la in 0..=l2 {
        for lb in 0..=l2 {
            // contents: position-dependent so that misaligned pairs show
            let sa: Vec<u64> = (0..la as u64).map(|i| alphabet[(i % 3) as usize] + i).collect();
            let sb: Vec<u64> = (0..lb as u64).map(|i| 50 + i * 2).collect();
            let a = MemVec::new("a", sa.clone());
            let b = MemVec::new("b", sb.clone());
            let lazy: LazyVecFrom2<usize, u64, usize, u64, usize, u64> =
                LazyVecFrom2::init("l2", Version::ONE, a.boxed(), b.boxed(), |i, x, y| f2(i, x, y));
            let n = la.min(lb);
            let exp: Vec<u64> = (0..n).map(|i| f2(i, sa[i], sb[i])).collect();
            let sit = if la == lb { "" } else { "unequal_sources;" };
            acc.check("from2", sit, &lazy, &exp, format!("from2 a={sa:?} b={sb:?}"));
            for lc in 0..=l2.min(3) {
                let sc: Vec<u64> = (0..lc as u64).map(|i| 7 + i).collect();
                let c = MemVec::new("c", sc.clone());
                let lazy3: LazyVecFrom3<usize, u64, usize, u64, usize, u64, usize, u64> =
                    LazyVecFrom3::init(
                        "l3",
                        Version::ONE,
                        a.boxed(),
                        b.boxed(),
                        c.boxed(),
                        |i, x, y, z| f3(i, x, y, z),
                    );
                let n3 = n.min(lc);
                let exp3: Vec<u64> = (0..n3).map(|i| f3(i, sa[i], sb[i], sc[i])).collect();
                let sit3 = if la == lb && lb == lc { "" } else { "unequal_sources;" };
                acc.check(
                    "from3",
                    sit3,
                    &lazy3,
                    &exp3,
                    format!("from3 a={sa:?} b={sb:?} c={sc:?}"),
                );
            }
        }
    }

    // ---- windowed delta operators over all monotone window-start sequences
    for len in 0..=max_len {
        let srcs = if len <= 3 {
            sequences(&alphabet, len)
        } else {
            // longer sources: a fixed set of shapes (the window logic, not the values, grows)
            vec![
                (0..len as u64).map(|i| i * 3 + 1).collect(),
                (0..len as u64).map(|i| alphabet[(i % 3) as usize]).collect(),
                (0..len as u64).map(|i| 100 - i * 7).collect(),
            ]
        };
        for s in srcs {
            for nstarts in 0..=len + 1 {
                // inclusive ops: start[h] <= h + 1 (h + 1 = empty window)
                for st in monotone(nstarts, &|h| h + 1) {
                    let src = MemVec::new("s", s.clone());
                    let n = len.min(nstarts);
                    let st_arc: Arc<[usize]> = st.clone().into();
                    let sit = format!(
                        "{}{}",
                        if nstarts != len { "starts_len_differs;" } else { "" },
                        if st.iter().enumerate().any(|(h, v)| *v == h + 1) { "empty_window;" } else { "" }
                    );
                    {
                        let sa = st_arc.clone();
                        let lazy: LazyDeltaVec<usize, u64, u64, DeltaSub> =
                            LazyDeltaVec::new("d", Version::ONE, src.boxed(), Version::ONE, move || sa.clone());
                        let exp: Vec<u64> = (0..n)
                            .map(|h| {
                                let ago = if st[h] > 0 { s[st[h] - 1] } else { 0 };
                                s[h].checked_sub(ago).unwrap_or_default()
                            })
                            .collect();
                        acc.check("delta_sub", &sit, &lazy, &exp, format!("delta_sub source={s:?} starts={st:?}"));
                    }
                    {
                        let sa = st_arc.clone();
                        let s32: Vec<u32> = s.iter().map(|x| *x as u32).collect();
                        let src32 = MemVec::new("s", s32.clone());
                        let lazy: LazyDeltaVec<usize, u32, f64, DeltaAvg> =
                            LazyDeltaVec::new("d", Version::ONE, src32.boxed(), Version::ONE, move || sa.clone());
                        let exp: Vec<f64> = (0..n)
                            .map(|h| {
                                let ago = if st[h] > 0 { s32[st[h] - 1] } else { 0 };
                                let count = h + 1 - st[h];
                                if count == 0 {
                                    0.0
                                } else {
                                    (s32[h] as f64 - ago as f64) / count as f64
                                }
                            })
                            .collect();
                        acc.check("delta_avg", &sit, &lazy, &exp, format!("delta_avg source={s:?} starts={st:?}"));
                    }
                }
                // point-to-point ops: start[h] <= h
                for st in monotone(nstarts, &|h| h) {
                    let n = len.min(nstarts);
                    let st_arc: Arc<[usize]> = st.clone().into();
                    let s32: Vec<u32> = s.iter().map(|x| *x as u32).collect();
                    let src32 = MemVec::new("s", s32.clone());
                    let sit = if nstarts != len { "starts_len_differs;" } else { "" };
                    {
                        let sa = st_arc.clone();
                        let lazy: LazyDeltaVec<usize, u32, f64, DeltaChange> =
                            LazyDeltaVec::new("d", Version::ONE, src32.boxed(), Version::ONE, move || sa.clone());
                        let exp: Vec<f64> =
                            (0..n).map(|h| s32[h] as f64 - s32[st[h]] as f64).collect();
                        acc.check("delta_change", sit, &lazy, &exp, format!("delta_change source={s:?} starts={st:?}"));
                    }
                    {
                        let sa = st_arc.clone();
                        let lazy: LazyDeltaVec<usize, u32, f64, DeltaRate> =
                            LazyDeltaVec::new("d", Version::ONE, src32.boxed(), Version::ONE, move || sa.clone());
                        let exp: Vec<f64> = (0..n)
                            .map(|h| {
                                let ago = s32[st[h]] as f64;
                                if ago == 0.0 { 0.0 } else { (s32[h] as f64 - ago) / ago }
                            })
                            .collect();
                        acc.check("delta_rate", sit, &lazy, &exp, format!("delta_rate source={s:?} starts={st:?}"));
                    }
                }
            }
        }
    }

    // ---- sparse aggregation over all monotone first-index mappings (including index 0,
    //      repeats, mappings past the end, shorter and longer than the source)
    for len in 0..=max_len.min(4) {
        let s: Vec<u64> = (0..len as u64).map(|i| 11 + i * 2).collect();
        for nmap in 0..=4usize.min(max_len + 1) {
            for mp in monotone(nmap, &|_| len + 2) {
                let src = MemVec::new("s", s.clone());
                let m_arc: Arc<[usize]> = mp.clone().into();
                let lazy: LazyAggVec<usize, Option<u64>, usize, usize, u64> =
                    LazyAggVec::new("agg", Version::ONE, Version::ONE, src.boxed(), move || m_arc.clone());
                // definition (the one the point read implements): the last element of the
                // group [m[i], next) if that element exists, nothing otherwise
                let exp: Vec<Option<u64>> = (0..nmap)
                    .map(|i| {
                        let cur = mp[i];
                        let next = mp.get(i + 1).copied().unwrap_or(len);
                        if next == 0 || cur >= next {
                            None
                        } else {
                            s.get(next - 1).copied()
                        }
                    })
                    .collect();
                let past_end = mp.iter().any(|v| *v > len);
                let sit = if past_end { "mapping_past_end;" } else { "" };
                acc.check("agg_sparse", sit, &lazy, &exp, format!("agg_sparse source={s:?} mapping={mp:?}"));
            }
        }
    }

    let (vecs, calls, per_kind, distinct) = (acc.vecs, acc.calls, acc.per_kind, acc.distinct_expected.len() as u64);
    run.cov_add("states", vecs);
    run.cov_add("transitions", calls);
    run.cov_add("traces_validated_against_impl", calls);
    run.cov_add("evaluations", calls);
    run.cov_add("distinct_nontrivial", distinct);
    run.cov("exhaustive", json!(true));
    let mut e = run.coverage.remove("explorations").unwrap_or_else(|| json!([]));
    e.as_array_mut().unwrap().push(json!({
        "label": "lazyx",
        "lazy_vectors_built": vecs,
        "read_calls": calls,
        "per_kind": per_kind,
        "max_source_len": max_len,
        "distinct_expected_results": distinct,
    }));
    run.cov("explorations", e);
    run.assumptions.push("lazyx: sources are in-memory vectors of the harness (so only the lazy layer is under test); index type usize; source values from {0,2,5} / position patterns".into());
}
