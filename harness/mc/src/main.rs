//! anydb-mc — model-checking engines for the anydb properties (see /verif/DESIGN.md).

mod chess;
mod chessx;
mod codecx;
mod crashx;
mod eagerx;
mod importx;
mod lazyx;
mod openx;
mod rawx;
mod rawx_run;
mod valuex;
mod vecreads;
mod vecx;
mod vecx_run;
mod versionx;
mod report;
mod scratch;
mod seqx;
mod tap;

#[global_allocator]
static ALLOC: codecx::Counting = codecx::Counting;

fn usage() -> ! {
    eprintln!("usage: anydb-mc <C01..C20> <quick|thorough> | anydb-mc replay <file>");
    std::process::exit(2)
}

fn main() {
    // the panic hook is silent (panics of the code under test are caught and judged); a panic
    // of the harness itself must not end the process without a word
    let r = std::panic::catch_unwind(real_main);
    if let Err(p) = r {
        eprintln!("MACHINERY-ERROR: the harness itself panicked at {}: {}", seqx::last_panic_loc(), seqx::panic_msg(&p));
        std::process::exit(3);
    }
}

fn real_main() {
    let args: Vec<String> = std::env::args().collect();
    if args.len() < 3 {
        usage();
    }
    scratch::sweep_stale();
    seqx::install_panic_hook();
    if args[1] == "openprobe" {
        std::process::exit(openx::probe_main(&args[2], args.get(3).and_then(|s| s.parse().ok()).unwrap_or(0)));
    }
    let code = if args[1] == "replay" {
        replay(&args[2])
    } else if args[1] == "worker" {
        match args[2].as_str() {
            "rawx" => rawx_run::worker(&args[3]),
            "crashx" => rawx_run::crash_worker(&args[3]),
            "vecx" => vecx_run::worker(&args[3]),
            e => panic!("unknown engine {e}"),
        }
        0
    } else {
        let tier = args[2].as_str();
        if tier != "quick" && tier != "thorough" {
            usage();
        }
        match args[1].as_str() {
            p @ ("C09" | "C11") => {
                let kf = report::KnownFindings::load();
                let mut run = report::Run::new(p, tier, "chessx");
                chessx::run_jobs(&mut run, &kf, p, chessx::plan(p, tier), if tier == "quick" { 120 } else { 1200 }, p);
                if p == "C09" {
                    loom_supplement(&mut run, &kf, tier);
                }
                run.cov("rule", serde_json::json!("stateless depth-first exploration of all schedules of each small multi-thread program with at most the stated number of pre-emptions, on the real code under a controlling scheduler; an execution is one complete schedule; distinct = distinct (program, thread observations, deadlock) outcomes"));
                run.finish()
            }
            "C18" => {
                let kf = report::KnownFindings::load();
                let mut run = report::Run::new("C18", tier, "openx+chessx");
                openx::add(&mut run, &kf, tier);
                chessx::run_jobs(&mut run, &kf, "C18", openx::thread_programs(tier == "quick"), if tier == "quick" { 60 } else { 600 }, "C18");
                run.cov("rule", serde_json::json!("depth-first over all handle-lifecycle histories up to the stated depth (each executed from scratch on a fresh directory), with an open attempt from this process possible at every step and an open attempt from a child process as the last step; plus all schedules (pre-emption bounded) of concurrent opens"));
                run.finish()
            }
            "C05" => {
                let kf = report::KnownFindings::load();
                let mut run = report::Run::new("C05", tier, "crashx");
                rawx_run::add_crash(&mut run, &kf, "C05", tier, if tier == "quick" { 150 } else { 1200 });
                run.cov("rule", serde_json::json!("breadth-first over operation histories (as rawx); for every transition, every event boundary of the operation (mmap write, set_len, sync begin/end, punch) is a crash point; at each crash point the crash images of both environments are materialised, opened with the real Database::open and judged; states are distinct by implementation state + durable image + dirty page versions"));
                run.finish()
            }
            p @ ("C01" | "C02" | "C10" | "C12") => {
                let kf = report::KnownFindings::load();
                let mut run = report::Run::new(p, tier, "rawx");
                rawx_run::add(&mut run, &kf, p, tier, if tier == "quick" { 120 } else { 800 });
                if p == "C12" {
                    rawx_run::add_crash(&mut run, &kf, "C12", tier, if tier == "quick" { 60 } else { 500 });
                    chessx::run_jobs(&mut run, &kf, "C12", chessx::plan("C12", tier), if tier == "quick" { 45 } else { 500 }, "C12");
                }
                if p == "C10" {
                    chessx::run_jobs(&mut run, &kf, "C10", chessx::plan("C10", tier), if tier == "quick" { 60 } else { 900 }, "C10");
                }
                run.cov("rule", serde_json::json!(rawx_run::RULE));
                run.finish()
            }
            p @ ("C03" | "C04" | "C07" | "C16" | "C08" | "C20") => {
                let kf = report::KnownFindings::load();
                let mut run = report::Run::new(p, tier, "vecx");
                vecx_run::add(&mut run, &kf, p, tier, if tier == "quick" { 150 } else { 1000 });
                if p == "C08" {
                    vecreads::bigscan(&mut run, &kf);
                }
                if p == "C07" {
                    valuex::add(&mut run, &kf, tier);
                }
                run.cov("rule", serde_json::json!(rawx_run::RULE));
                run.finish()
            }
            "C14" => {
                let kf = report::KnownFindings::load();
                let mut run = report::Run::new("C14", tier, "importx");
                importx::add(&mut run, &kf, tier);
                run.cov("rule", serde_json::json!("complete cross product of the listed configuration axes, one fresh database per case; a case is one (create, re-import) pair on the real code; all cases are distinct by construction"));
                run.finish()
            }
            "C15" => {
                let kf = report::KnownFindings::load();
                let mut run = report::Run::new("C15", tier, "lazyx");
                lazyx::add(&mut run, &kf, tier);
                run.cov("rule", serde_json::json!("every lazy vector built from every source content / mapping of the stated sizes; for each, every read API x all (from,to) pairs over 0..len+1 and usize::MAX x all subsets of six indices, compared with the defining formula evaluated on plain Vecs; a case is distinct by (kind, expected result)"));
                run.finish()
            }
            "C17" => {
                let kf = report::KnownFindings::load();
                let mut run = report::Run::new("C17", tier, "codecx+vecx");
                codecx::add(&mut run, &kf, tier);
                vecx_run::add(&mut run, &kf, "C17", tier, if tier == "quick" { 90 } else { 600 });
                run.cov("rule", serde_json::json!("boundary cross products of every field of every codec, all truncations and byte/length-field mutations of valid encodings, all slot-kind combinations of the regions file; each decode is one case, distinct by its input bytes"));
                run.finish()
            }
            "C19" => {
                let kf = report::KnownFindings::load();
                let mut run = report::Run::new("C19", tier, "versionx");
                versionx::add(&mut run, &kf, tier);
                versionx::chains(&mut run, &kf, tier);
                run.cov("rule", serde_json::json!("all sequences up to the stated depth over the alphabet of compute calls (family x presented versions x starting index) and write / re-import / source growth, each executed from scratch on a real EagerVec; distinct = distinct (stored result, expected result) outcomes"));
                run.finish()
            }
            "C06" => {
                let kf = report::KnownFindings::load();
                let mut run = report::Run::new("C06", tier, "eagerx");
                eagerx::add(&mut run, &kf, tier, if tier == "quick" { 120 } else { 1200 });
                run.cov("rule", serde_json::json!("per compute method: all source histories of the stated number of steps over {append 1, append 2, truncate+regrow 1, truncate+regrow 2, no change} x starting-index choices x batch limits x {nothing, write, re-import, redundant call} between calls; each case compares the incrementally maintained result with a from-scratch run after every step; distinct = distinct (method, result sequence)"));
                run.finish()
            }
            "C13" => {
                let kf = report::KnownFindings::load();
                let mut run = report::Run::new("C13", tier, "rawx+vecx");
                rawx_run::add(&mut run, &kf, "C13", tier, if tier == "quick" { 90 } else { 400 });
                vecx_run::add(&mut run, &kf, "C13", tier, if tier == "quick" { 120 } else { 600 });
                run.cov("rule", serde_json::json!(rawx_run::RULE));
                run.finish()
            }
            _ => {
                eprintln!("no engine registered for {}", args[1]);
                2
            }
        }
    };
    std::process::exit(code);
}

fn replay(file: &str) -> i32 {
    let Ok(s) = std::fs::read_to_string(file) else {
        eprintln!("cannot read {file}");
        return 2;
    };
    let mut doc: serde_json::Value = serde_json::from_str(&s).expect("replay file must be JSON");
    doc["file"] = serde_json::json!(file);
    match doc["replay"]["engine"].as_str().unwrap_or("") {
        "rawx" => rawx_run::replay(&doc),
        "vecx" => vecx_run::replay(&doc),
        "chessx" => chessx::replay(&doc),
        "crashx" => rawx_run::replay_crash(&doc),
        // the enumerating engines re-run their (deterministic) enumeration and report whether
        // the recorded signature occurs again
        "codecx" | "eagerx" | "importx" | "lazyx" | "openx" | "versionx" | "bigscan" | "valuex" | "loom" => replay_by_rerun(&doc),
        e => {
            eprintln!("unknown engine {e}");
            2
        }
    }
}

/// C09 supplement: the loom model of the `SharedLen` publication protocol (harness/loomsl,
/// built from the repository's own source file) — the C11 memory-model side that the
/// sequentially consistent scheduler of chessx cannot see.
fn loom_supplement(run: &mut report::Run, kf: &report::KnownFindings, tier: &str) {
    let exe = std::env::current_exe().expect("current_exe").with_file_name("loomsl");
    let out = match std::process::Command::new(&exe).arg(tier).output() {
        Ok(o) => o,
        Err(e) => {
            run.machinery_errors.push(format!("cannot run {}: {e}", exe.display()));
            return;
        }
    };
    let text = String::from_utf8_lossy(&out.stdout).to_string();
    let line = text.lines().find(|l| l.starts_with("LOOM ")).unwrap_or("").to_string();
    let execs: u64 = line.split("executions=").nth(1).and_then(|s| s.split(' ').next()).and_then(|s| s.parse().ok()).unwrap_or(0);
    eprintln!("  [loom shared_len] {line}");
    if line.is_empty() {
        run.machinery_errors.push(format!("loomsl produced no verdict (exit {:?})", out.status.code()));
        return;
    }
    run.cov_add("traces_validated_against_impl", execs);
    run.cov_add("evaluations", execs);
    let mut e = run.coverage.remove("explorations").unwrap_or_else(|| serde_json::json!([]));
    e.as_array_mut().unwrap().push(serde_json::json!({
        "label": "loom/shared_len",
        "what": "loom (C11 memory model, all executions) over writer {fill slot i; SharedLen::set(i+1)} x rounds against readers {n = SharedLen::get(); read slots below n}; slots are loom UnsafeCells, so a read without a happens-before edge to the write is reported; SharedLen is compiled from /repo's own shared_len/mod.rs with std::sync switched to loom::sync",
        "executions": execs,
        "verdict_line": line,
    }));
    run.cov("explorations", e);
    if let Some(msg) = line.split("result=violation: ").nth(1) {
        let v = seqx::Violation {
            property: "C09".into(),
            signature: format!("loom|shared_len|{}", msg.split(':').next().unwrap_or("").trim()),
            detail: format!("loom model of the SharedLen publication protocol: {msg}"),
        };
        let d = kf.classifier("C09")(&v);
        run.add_found(
            seqx::Found {
                path: vec![],
                shown: vec!["writer: slot[i] = v; SharedLen::set(i + 1)  ||  reader: n = SharedLen::get(); read slot[..n]".into()],
                violation: v,
                known: d == seqx::Disposition::Known,
            },
            serde_json::json!({"engine": "loom"}),
        );
    }
}

fn replay_by_rerun(doc: &serde_json::Value) -> i32 {
    let property = doc["property"].as_str().unwrap_or("").to_string();
    let tier = doc["tier"].as_str().unwrap_or("quick").to_string();
    let want = doc["signature"].as_str().unwrap_or("").to_string();
    let exe = std::env::current_exe().expect("current_exe");
    let mut outcomes = Vec::new();
    for _ in 0..2 {
        // VERIF_NO_EVIDENCE: the nested run must not rewrite the evidence file
        let out = std::process::Command::new(&exe)
            .args([&property, &tier])
            .env("VERIF_NO_EVIDENCE", "1")
            .env("VERIF_IGNORE_KNOWN", "1")
            .output()
            .expect("nested run");
        let text = String::from_utf8_lossy(&out.stdout).to_string();
        let mut hit = Vec::new();
        let mut lines = text.lines().peekable();
        while let Some(l) = lines.next() {
            if l.trim_start().strip_prefix("signature: ").is_some_and(|s| s == want) {
                let detail = lines.peek().map(|d| d.trim().to_string()).unwrap_or_default();
                hit.push(format!("{want} :: {detail}"));
            }
        }
        outcomes.push(hit);
    }
    finish_replay(doc, &property, outcomes)
}

pub fn finish_replay(doc: &serde_json::Value, property: &str, outcomes: Vec<Vec<String>>) -> i32 {
    if outcomes[0] != outcomes[1] {
        eprintln!("MACHINERY-ERROR: replay is not deterministic: {outcomes:?}");
        return 3;
    }
    println!("history: {}", doc["history"]);
    if outcomes[0].is_empty() {
        println!("replay: no violation of {property} at the last step");
        0
    } else {
        for s in &outcomes[0] {
            println!("replay: {s}");
        }
        println!("VIOLATION property={property} replay={}", doc["file"].as_str().unwrap_or("?"));
        1
    }
}
