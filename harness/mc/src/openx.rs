//! openx — handle-lifecycle histories of one database directory, with open attempts from
//! this process and from child processes (C18), plus thread programs for chessx.

use std::{
    collections::{BTreeMap, HashSet},
    fs,
    path::{Path, PathBuf},
    sync::{
        Arc,
        atomic::{AtomicBool, Ordering},
    },
    time::Duration,
};

use rawdb::{Database, Reader};
use serde_json::json;

use crate::{
    chessx::{Body, Job, Program, World},
    report::{KnownFindings, Run},
    scratch::Scratch,
    seqx::{Disposition, Found, Violation, guarded, hash64},
};

const LARGE: usize = 1024 * 1024 + 8192;

#[derive(Debug, Clone, Copy, PartialEq, Eq, Hash)]
pub enum Op {
    /// open (only issued while no instance is open): must succeed
    Open(usize),
    CloneHandle,
    DropHandle,
    /// keep a Database obtained from a region (`region.db()`)
    KeepRegionDb,
    DropRegionDb,
    KeepReader,
    DropReader,
    /// keep a plain `File` obtained from `open_read_only_file()` / `Region::
    /// open_db_read_only_file()`: not an owner of the instance — the statement lists handles,
    /// region-derived references and readers — so it must not keep the directory locked
    KeepRoFile,
    DropRoFile,
    /// background task that runs until released
    RunBg,
    /// release the background task and sync_bg_tasks()
    SyncBg,
    /// write to a region and flush (changes what a later open must see)
    WriteFlush,
    /// write without flushing (must not be required after reopen; not judged)
    AttemptInProcess(usize),
    AttemptChild(usize),
}

struct Sys {
    dir: PathBuf,
    handles: Vec<Database>,
    region_dbs: Vec<Database>,
    readers: Vec<Reader>,
    ro_files: Vec<fs::File>,
    bg_release: Option<Arc<AtomicBool>>,
    /// contents of region "r" as of the last flush
    flushed: Vec<u8>,
    pending: Vec<u8>,
    n_writes: u8,
}

fn file_state(dir: &Path) -> Vec<(String, u64, u64)> {
    ["data", "regions"]
        .iter()
        .map(|n| {
            let b = fs::read(dir.join(n)).unwrap_or_default();
            (n.to_string(), b.len() as u64, hash64(&b))
        })
        .collect()
}

fn is_lock_error(e: &rawdb::Error) -> bool {
    matches!(e, rawdb::Error::TryLock(_))
}

/// `anydb-mc openprobe <dir> <min_len>`: exit 0 = opened, 10 = lock error, 11 = other error.
pub fn probe_main(dir: &str, min_len: usize) -> i32 {
    match Database::open_with_min_len(Path::new(dir), min_len) {
        Ok(db) => {
            // report what it sees
            let r = db.get_region("r").map(|r| r.create_reader().read_all().to_vec());
            println!("{}", r.map_or("none".to_string(), |b| format!("{}:{:016x}", b.len(), hash64(&b))));
            0
        }
        Err(e) if is_lock_error(&e) => 10,
        Err(e) => {
            eprintln!("{e:?}");
            11
        }
    }
}

impl Sys {
    fn owners(&self) -> usize {
        self.handles.len() + self.region_dbs.len() + self.readers.len()
    }

    fn any_db(&self) -> Option<Database> {
        self.handles
            .first()
            .cloned()
            .or_else(|| self.region_dbs.first().cloned())
    }

    fn ops(&self, with_child: bool) -> Vec<Op> {
        let mut v = Vec::new();
        let open = self.owners() > 0;
        if !open {
            v.push(Op::Open(0));
            v.push(Op::Open(LARGE));
        } else {
            if !self.handles.is_empty() {
                v.push(Op::CloneHandle);
                // the last owner may only go once the background task was released
                if self.owners() > 1 || self.bg_release.is_none() {
                    v.push(Op::DropHandle);
                }
                if self.region_dbs.len() < 2 {
                    v.push(Op::KeepRegionDb);
                }
                if self.readers.len() < 2 {
                    v.push(Op::KeepReader);
                }
                if self.bg_release.is_none() {
                    v.push(Op::RunBg);
                }
                if self.ro_files.len() < 2 {
                    v.push(Op::KeepRoFile);
                }
                if self.n_writes < 2 && self.readers.is_empty() {
                    v.push(Op::WriteFlush);
                }
            }
            if !self.region_dbs.is_empty() && (self.owners() > 1 || self.bg_release.is_none()) {
                v.push(Op::DropRegionDb);
            }
            if !self.readers.is_empty() && (self.owners() > 1 || self.bg_release.is_none()) {
                v.push(Op::DropReader);
            }
            if self.bg_release.is_some() && self.any_db().is_some() {
                v.push(Op::SyncBg);
            }
        }
        if !self.ro_files.is_empty() {
            v.push(Op::DropRoFile);
        }
        // open attempts are not operations of the alphabet: `probe` makes them in every
        // reached state
        let _ = with_child;
        v
    }

    fn expected_visible(&self) -> String {
        if self.n_writes == 0 {
            "none".into()
        } else {
            format!("{}:{:016x}", self.flushed.len(), hash64(&self.flushed))
        }
    }

    fn apply(&mut self, op: Op) -> Vec<(String, String)> {
        let mut bad = Vec::new();
        let owners = self.owners();
        let sit = format!(
            "{}{}{}{}{}",
            if self.handles.is_empty() { "" } else { "handle;" },
            if self.region_dbs.is_empty() { "" } else { "region_db;" },
            if self.readers.is_empty() { "" } else { "reader;" },
            if self.bg_release.is_some() { "bg_task;" } else { "" },
            if self.ro_files.is_empty() { "" } else { "ro_file;" }
        );
        match op {
            Op::Open(min) => match Database::open_with_min_len(&self.dir, min) {
                Ok(db) => {
                    let seen = db.get_region("r").map(|r| r.create_reader().read_all().to_vec());
                    let got = seen.map_or("none".to_string(), |b| format!("{}:{:016x}", b.len(), hash64(&b)));
                    if got != self.expected_visible() {
                        bad.push((format!("open|{sit}|sees_wrong_data"), format!("a new open sees region r as {got}, the previous holder flushed {}", self.expected_visible())));
                    }
                    self.pending = self.flushed.clone();
                    self.handles.push(db);
                }
                Err(e) => bad.push((format!("open|{sit}|refused_although_closed"), format!("no owner is left but open fails: {e:?}"))),
            },
            Op::CloneHandle => {
                let h = self.handles[0].clone();
                self.handles.push(h);
            }
            Op::DropHandle => {
                self.handles.pop();
            }
            Op::KeepRegionDb => {
                let db = &self.handles[0];
                let r = db.create_region_if_needed("aux").expect("aux");
                self.region_dbs.push(r.db());
            }
            Op::DropRegionDb => {
                self.region_dbs.pop();
            }
            Op::KeepReader => {
                let db = &self.handles[0];
                let r = db.create_region_if_needed("aux").expect("aux");
                self.readers.push(r.create_reader());
            }
            Op::DropReader => {
                self.readers.pop();
            }
            Op::KeepRoFile => {
                let db = &self.handles[0];
                let f = if self.ro_files.is_empty() {
                    db.open_read_only_file().expect("open_read_only_file")
                } else {
                    db.create_region_if_needed("aux").expect("aux").open_db_read_only_file().expect("open_db_read_only_file")
                };
                self.ro_files.push(f);
            }
            Op::DropRoFile => {
                self.ro_files.pop();
            }
            Op::RunBg => {
                let flag = Arc::new(AtomicBool::new(false));
                let f2 = flag.clone();
                self.handles[0].run_bg(move |_db| {
                    while !f2.load(Ordering::SeqCst) {
                        std::thread::sleep(Duration::from_micros(200));
                    }
                    Ok(())
                });
                self.bg_release = Some(flag);
            }
            Op::SyncBg => {
                if let Some(f) = self.bg_release.take() {
                    f.store(true, Ordering::SeqCst);
                }
                if let Some(db) = self.any_db() {
                    let _ = db.sync_bg_tasks();
                }
            }
            Op::WriteFlush => {
                let db = &self.handles[0];
                let r = db.create_region_if_needed("r").expect("r");
                let add: Vec<u8> = (0..700u32).map(|i| (i as u8) ^ (self.n_writes + 1)).collect();
                r.write(&add).expect("write");
                db.flush().expect("flush");
                self.pending.extend_from_slice(&add);
                self.flushed = self.pending.clone();
                self.n_writes += 1;
            }
            Op::AttemptInProcess(min) => {
                let before = file_state(&self.dir);
                let r = Database::open_with_min_len(&self.dir, min);
                if owners > 0 {
                    match r {
                        Ok(_) => bad.push((format!("attempt_in_process|{sit}|second_instance_opened"), "a second Database was opened on a directory that is still held".into())),
                        Err(e) => {
                            if !is_lock_error(&e) {
                                bad.push((format!("attempt_in_process|{sit}|not_a_lock_error"), format!("{e:?}")));
                            }
                            if file_state(&self.dir) != before {
                                bad.push((format!("attempt_in_process|{sit}|files_modified"), format!("a refused open changed the files: {before:?} -> {:?}", file_state(&self.dir))));
                            }
                        }
                    }
                } else {
                    match r {
                        Ok(db) => {
                            let seen = db.get_region("r").map(|r| r.create_reader().read_all().to_vec());
                            let got = seen.map_or("none".to_string(), |b| format!("{}:{:016x}", b.len(), hash64(&b)));
                            if got != self.expected_visible() {
                                bad.push((format!("attempt_in_process|{sit}|sees_wrong_data"), format!("sees {got}, flushed {}", self.expected_visible())));
                            }
                            self.pending = self.flushed.clone();
                            self.handles.push(db);
                        }
                        Err(e) => bad.push((format!("attempt_in_process|{sit}|refused_although_closed"), format!("{e:?}"))),
                    }
                }
            }
            Op::AttemptChild(min) => {
                let before = file_state(&self.dir);
                // fork (no exec: loading a fresh executable costs ~100 ms of page faults in
                // this sandbox): the child is another process with its own file descriptions,
                // which is all that matters for the directory lock; it runs the real open.
                let expected = self.expected_visible();
                let dir = self.dir.clone();
                let code = unsafe {
                    let pid = libc::fork();
                    if pid == 0 {
                        libc::alarm(10);
                        let code = match Database::open_with_min_len(&dir, min) {
                            Ok(db) => {
                                let seen = db.get_region("r").map(|r| r.create_reader().read_all().to_vec());
                                let got = seen.map_or("none".to_string(), |b| format!("{}:{:016x}", b.len(), hash64(&b)));
                                std::mem::forget(db);
                                if got == expected { 0 } else { 12 }
                            }
                            Err(e) if is_lock_error(&e) => 10,
                            Err(_) => 11,
                        };
                        libc::_exit(code);
                    }
                    let mut status = 0i32;
                    libc::waitpid(pid, &mut status, 0);
                    if libc::WIFEXITED(status) { libc::WEXITSTATUS(status) } else { -1 }
                };
                if code == -1 {
                    bad.push(("MACHINERY|probe_child_died".into(), "forked probe did not exit normally".into()));
                } else if owners > 0 {
                    if code == 0 || code == 12 {
                        bad.push((format!("attempt_child|{sit}|second_instance_opened"), "another process opened a directory that is still held".into()));
                    } else if code != 10 {
                        bad.push((format!("attempt_child|{sit}|not_a_lock_error"), format!("probe exit {code}")));
                    }
                    if file_state(&self.dir) != before {
                        bad.push((format!("attempt_child|{sit}|files_modified"), "a refused open from another process changed the files".into()));
                    }
                } else if code == 12 {
                    bad.push((format!("attempt_child|{sit}|sees_wrong_data"), format!("another process does not see what was flushed ({expected})")));
                } else if code != 0 {
                    bad.push((format!("attempt_child|{sit}|refused_although_closed"), format!("probe exit {code}")));
                }
            }
        }
        bad
    }
}

impl Sys {
    /// The open attempts C18 speaks about, made in the state the history has reached: from this
    /// process and from a forked child process, with min_len 0 and beyond the file size while
    /// an owner is alive (all must be refused and change nothing); with min_len 0 when no owner
    /// is left (must succeed and see the flushed data; the probe's instance is dropped again).
    fn probe(&mut self) -> Vec<(String, String)> {
        let mut bad = Vec::new();
        if self.owners() > 0 {
            for min in [0, LARGE] {
                bad.extend(self.apply(Op::AttemptInProcess(min)));
                bad.extend(self.apply(Op::AttemptChild(min)));
            }
        } else {
            bad.extend(self.apply(Op::AttemptChild(0)));
            let n = self.handles.len();
            bad.extend(self.apply(Op::AttemptInProcess(0)));
            self.handles.truncate(n);
        }
        bad
    }
}

impl Drop for Sys {
    fn drop(&mut self) {
        if let Some(f) = self.bg_release.take() {
            f.store(true, Ordering::SeqCst);
        }
        self.readers.clear();
    }
}

pub fn add(run: &mut Run, kf: &KnownFindings, tier: &str) {
    let classify = kf.classifier("C18");
    let quick = tier == "quick";
    let depth = if quick { 4 } else { 6 };
    let root = Scratch::new("openx");
    let mut histories = 0u64;
    let mut steps = 0u64;
    let mut outcomes: HashSet<u64> = HashSet::new();
    let mut child_attempts = 0u64;
    let mut found: BTreeMap<String, (Vec<String>, String)> = BTreeMap::new();
    let mut stack: Vec<Vec<Op>> = vec![vec![]];
    while let Some(hist) = stack.pop() {
        let d = root.sub("h");
        histories += 1;
        let r = guarded(|| {
            let mut sys = Sys {
                dir: d.clone(),
                handles: vec![],
                region_dbs: vec![],
                readers: vec![],
                ro_files: vec![],
                bg_release: None,
                flushed: vec![],
                pending: vec![],
                n_writes: 0,
            };
            let mut last = Vec::new();
            for (i, op) in hist.iter().enumerate() {
                let mut bad = sys.apply(*op);
                if i + 1 == hist.len() {
                    bad.extend(sys.probe());
                    last = bad;
                } else if !bad.is_empty() {
                    return (Vec::new(), Vec::new(), 0u64, true);
                }
            }
            // child attempts are leaves: they are the expensive step
            let next = sys.ops(hist.len() + 1 == depth);
            let obs = hash64(&(sys.owners(), sys.n_writes, sys.bg_release.is_some(), sys.ro_files.len(), file_state(&sys.dir).len()));
            (last, next, obs, false)
        });
        steps += hist.len() as u64;
        child_attempts += if hist.is_empty() { 0 } else { 2 };
        let shown: Vec<String> = hist.iter().map(|o| format!("{o:?}")).collect();
        match r {
            Err(p) => {
                found.entry(format!("panic|{}", p.split(": ").next().unwrap_or("?"))).or_insert((shown, p));
            }
            Ok((bad, next, obs, cut)) => {
                outcomes.insert(obs ^ hash64(&shown));
                if cut {
                    continue;
                }
                if !bad.is_empty() {
                    for (sig, detail) in bad {
                        found.entry(sig).or_insert((shown.clone(), detail));
                    }
                    continue;
                }
                if hist.len() < depth {
                    for op in next {
                        let mut h = hist.clone();
                        h.push(op);
                        stack.push(h);
                    }
                }
            }
        }
    }
    run.cov_add("states", outcomes.len() as u64);
    run.cov_add("transitions", steps);
    run.cov_add("traces_validated_against_impl", histories);
    run.cov_add("evaluations", histories);
    run.cov_add("distinct_nontrivial", outcomes.len() as u64);
    if !run.coverage.contains_key("exhaustive") {
        run.cov("exhaustive", json!(true));
    }
    let mut e = run.coverage.remove("explorations").unwrap_or_else(|| json!([]));
    e.as_array_mut().unwrap().push(json!({
        "label": "openx",
        "depth": depth,
        "histories_executed": histories,
        "open_attempts_from_child_processes": child_attempts,
    }));
    run.cov("explorations", e);
    run.push_sample(json!({"exploration": "openx", "history": ["Open(0)", "KeepReader", "DropHandle"], "probes_in_reached_state": ["open in this process: refused", "open(min_len > file) in this process: refused", "open in a forked child: refused", "open(min_len > file) in a forked child: refused"]}));
    for (sig, (shown, detail)) in found {
        let v = Violation {
            property: "C18".into(),
            signature: sig,
            detail,
        };
        let d = classify(&v);
        if d == Disposition::Ignore {
            continue;
        }
        run.add_found(
            Found {
                path: vec![],
                shown,
                violation: v,
                known: d == Disposition::Known,
            },
            json!({"engine": "openx"}),
        );
    }
    run.assumptions.push("openx: processes are sequenced (a child process attempts to open while the parent is at a given point of its history); threads are fully scheduled by chessx".into());
}

// ---------------------------------------------------------------------------------------
// thread programs: open against open, open against the drop of the last handle
// ---------------------------------------------------------------------------------------

static HOLDERS: std::sync::atomic::AtomicUsize = std::sync::atomic::AtomicUsize::new(0);

fn target(w: &World) -> PathBuf {
    w.dir.join("target")
}

fn prepared_world(dir: &Path) -> World {
    // the controlled database lives in <dir>/target; World.db is an unrelated dummy
    let t = dir.join("target");
    HOLDERS.store(0, Ordering::SeqCst);
    let db = Database::open(&t).expect("prep");
    let r = db.create_region_if_needed("r").unwrap();
    r.write(&[7u8; 500]).unwrap();
    db.flush().unwrap();
    drop(r);
    drop(db);
    World {
        dir: dir.to_path_buf(),
        db: Database::open(&dir.join("dummy")).expect("dummy"),
    }
}

fn open_body(min: usize, hold: bool) -> Body {
    Box::new(move |w: &World| match Database::open_with_min_len(&target(w), min) {
        Ok(db) => {
            let n = HOLDERS.fetch_add(1, Ordering::SeqCst) + 1;
            let seen = db.get_region("r").map(|r| r.create_reader().read_all().len());
            let mut out = vec![format!("opened sees={seen:?}")];
            if n > 1 {
                out.push(format!("TWO_INSTANCES {n} databases are open on the directory at the same time"));
            }
            if hold {
                // a scheduling point while the instance is held
                rawdb::verif::emit(rawdb::verif::Event::Point("holder:keeping"));
            }
            HOLDERS.fetch_sub(1, Ordering::SeqCst);
            drop(db);
            out
        }
        Err(e) => vec![format!("refused lock_error={}", is_lock_error(&e))],
    })
}

pub fn thread_programs(quick: bool) -> Vec<Job> {
    let mut jobs = Vec::new();
    let check = |_w: &World, results: &[Result<Vec<String>, String>]| -> Vec<(String, String, String)> {
        let mut v = Vec::new();
        for r in results.iter().flatten() {
            for l in r {
                if l.starts_with("opened") && !l.contains("Some(500)") {
                    v.push(("C18".to_string(), "threads|open|sees_wrong_data".to_string(), l.clone()));
                }
                if l.starts_with("TWO_INSTANCES") {
                    v.push(("C18".to_string(), "threads|open|two_instances".to_string(), l.clone()));
                }
                if l.starts_with("refused") && l.contains("lock_error=false") {
                    v.push(("C18".to_string(), "threads|open|not_a_lock_error".to_string(), l.clone()));
                }
            }
        }
        v
    };
    for (name, mins) in [("open || open", vec![0usize, 0]), ("open || open_with_min_len(large)", vec![0, LARGE]), ("open || open || open", vec![0, LARGE, 0])] {
        let mins2 = mins.clone();
        jobs.push(Job {
            program: Program {
                panic_property: "C18",
                class: "threads",
                name: name.to_string(),
                spec: format!("open:{name}"),
                locks_only: false,
                setup: Box::new(prepared_world),
                bodies: Box::new(move |_w| {
                    mins2
                        .iter()
                        .enumerate()
                        .map(|(i, m)| (format!("O{i}"), open_body(*m, true)))
                        .collect()
                }),
                check: Box::new(check),
            },
            bound: if quick { 2 } else { 3 },
            writer_preference: true,
            max_execs: if quick { 1500 } else { 50000 },
        });
    }
    jobs
}
