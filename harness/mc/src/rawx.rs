//! rawx — histories of region operations on one real `rawdb::Database`, against a model
//! that keeps one independent byte vector per region name (C01, C02, C12-sequential,
//! C13-rawdb, C10 reader clause).

use std::{
    collections::{BTreeMap, BTreeSet, HashSet},
    os::fd::AsRawFd,
    path::{Path, PathBuf},
};

use rawdb::{Database, Error, PAGE_SIZE, Reader, Region};

use crate::{
    seqx::{Key, Step, Sys, Violation, guarded, hash64, hash128},
    tap,
};

pub const NAMES: [&str; 4] = ["a", "b", "c", "d"];

#[derive(Debug, Clone, Copy, PartialEq, Eq, Hash, PartialOrd, Ord)]
pub enum Off {
    Zero,
    Mid,
    End,
}

#[derive(Debug, Clone, PartialEq, Eq, Hash)]
pub enum RawOp {
    Create(u8),
    Write(u8, usize),
    WriteAt(u8, Off, usize),
    /// batch_write_each of k 4-byte slots, 8 bytes apart, starting at the offset (all inside
    /// the current length; k = 1 is a batch whose items share one offset range)
    BatchWrite(u8, Off, u8),
    /// write_at one byte past the end: must be refused.
    WriteBeyond(u8),
    Truncate(u8, Off),
    /// truncate to len+1: must be refused.
    TruncateBeyond(u8),
    TruncateWrite(u8, Off, usize),
    /// rename n -> m (refused iff m exists).
    Rename(u8, u8),
    Remove(u8),
    /// remove_region_if_exists of a name that does not exist: Ok, no effect
    RemoveMissing,
    /// set_min_len: false = one byte (never grows the file), true = one byte more than the
    /// file has (grows it)
    SetMinLen(bool),
    /// remove while a second handle to the region is alive: must be refused.
    RemoveHeld(u8),
    /// retain exactly the names in the mask.
    Retain(u8),
    /// retain(mask) while a handle to `held` (not in mask) is alive: must be refused.
    RetainHeld(u8, u8),
    Flush,
    RegionFlush(u8),
    Compact,
    /// flush, drop the database, open it again.
    Reopen,
    OpenReader(u8),
    CheckReader,
    DropReader,
}

impl RawOp {
    pub(crate) fn kind(&self) -> &'static str {
        match self {
            RawOp::Create(_) => "create",
            RawOp::Write(..) => "write",
            RawOp::WriteAt(..) => "write_at",
            RawOp::BatchWrite(..) => "batch_write",
            RawOp::WriteBeyond(_) => "write_beyond",
            RawOp::Truncate(..) => "truncate",
            RawOp::TruncateBeyond(_) => "truncate_beyond",
            RawOp::TruncateWrite(..) => "truncate_write",
            RawOp::Rename(..) => "rename",
            RawOp::Remove(_) => "remove",
            RawOp::RemoveMissing => "remove_missing",
            RawOp::SetMinLen(_) => "set_min_len",
            RawOp::RemoveHeld(_) => "remove_held",
            RawOp::Retain(_) => "retain",
            RawOp::RetainHeld(..) => "retain_held",
            RawOp::Flush => "flush",
            RawOp::RegionFlush(_) => "region_flush",
            RawOp::Compact => "compact",
            RawOp::Reopen => "reopen",
            RawOp::OpenReader(_) => "open_reader",
            RawOp::CheckReader => "check_reader",
            RawOp::DropReader => "drop_reader",
        }
    }
}

#[derive(Debug, Clone)]
pub struct RawCfg {
    pub label: String,
    pub names: usize,
    pub sizes: Vec<usize>,
    pub at_sizes: Vec<usize>,
    pub offs: Vec<Off>,
    pub kinds: BTreeSet<&'static str>,
    pub min_len: usize,
    pub min_regions: usize,
    pub readers: bool,
    /// start from a non-initial state: this many regions created, filled with
    /// `prefill_bytes` bytes each and flushed
    pub prefill: usize,
    pub prefill_bytes: usize,
}

impl RawCfg {
    pub fn has(&self, k: &str) -> bool {
        self.kinds.contains(k)
    }
}

#[derive(Debug, Clone, Default)]
pub(crate) struct MRegion {
    pub(crate) bytes: Vec<u8>,
    /// ever held data or was renamed: must survive flush + reopen.
    pub(crate) durable: bool,
}

struct HeldReader {
    reader: Reader,
    name: u8,
    /// contents the region has had since the reader was created.
    versions: Vec<Vec<u8>>,
}

pub struct RawSys {
    pub(crate) dir: PathBuf,
    pub(crate) db: Option<Database>,
    pub(crate) model: BTreeMap<u8, MRegion>,
    generation: [u8; 4],
    reader: Option<HeldReader>,
    counters: BTreeMap<&'static str, u64>,
}

fn byte_at(name: u8, off: usize, generation: u8) -> u8 {
    1 + ((name as usize * 71 + off + (off / 251) * 7 + generation as usize * 113) % 255) as u8
}

fn data(name: u8, from: usize, len: usize, generation: u8) -> Vec<u8> {
    (from..from + len)
        .map(|o| byte_at(name, o, generation))
        .collect()
}

#[derive(Debug, Clone, PartialEq, Eq)]
pub(crate) struct RInfo {
    name: String,
    index: usize,
    start: usize,
    len: usize,
    reserved: usize,
    state: u8,
    dirty: (usize, usize),
}

#[derive(Debug, Clone, PartialEq, Eq)]
pub(crate) struct Snapshot {
    file_len: usize,
    real_file_len: u64,
    regions_file_len: u64,
    slots: usize,
    regions: Vec<RInfo>,
    holes: Vec<(usize, usize)>,
    pending: Vec<(usize, usize)>,
    reserved: Vec<(usize, usize)>,
    hole_to_starts: Vec<(usize, Vec<usize>)>,
    layout_regions: Vec<(usize, usize)>,
    layout_len: usize,
}

pub(crate) fn snapshot(db: &Database, dir: &Path) -> Snapshot {
    let regions_guard = db.regions();
    let mut regions = Vec::new();
    for r in regions_guard.index_to_region().iter().flatten() {
        let m = r.meta();
        regions.push(RInfo {
            name: m.id().to_string(),
            index: r.index(),
            start: m.start(),
            len: m.len(),
            reserved: m.reserved(),
            state: m.verif_state(),
            dirty: r.verif_dirty_bounds(),
        });
    }
    let slots = regions_guard.index_to_region().len();
    drop(regions_guard);
    let layout = db.layout();
    let mut hts = layout.verif_hole_to_starts();
    for (_, v) in hts.iter_mut() {
        v.sort();
    }
    let s = Snapshot {
        file_len: db.file_len(),
        real_file_len: std::fs::metadata(dir.join("data")).map_or(0, |m| m.len()),
        regions_file_len: std::fs::metadata(dir.join("regions")).map_or(0, |m| m.len()),
        slots,
        regions,
        holes: layout.start_to_hole().iter().map(|(a, b)| (*a, *b)).collect(),
        pending: layout
            .verif_pending_holes()
            .iter()
            .map(|(a, b)| (*a, *b))
            .collect(),
        reserved: layout
            .verif_start_to_reserved()
            .iter()
            .map(|(a, b)| (*a, *b))
            .collect(),
        hole_to_starts: hts,
        layout_regions: layout
            .start_to_region()
            .iter()
            .map(|(s, r)| (*s, r.index()))
            .collect(),
        layout_len: layout.len(),
    };
    s
}

/// C02 invariants on a snapshot. Returns (divergence kind, detail) pairs.
pub(crate) fn layout_problems(s: &Snapshot) -> Vec<(String, String)> {
    let mut out = Vec::new();
    let mut p = |k: &str, d: String| out.push((k.to_string(), d));
    if s.file_len as u64 != s.real_file_len {
        p(
            "file_len_cache",
            format!("cached {} real {}", s.file_len, s.real_file_len),
        );
    }
    let mut ext: Vec<(usize, usize, String)> = Vec::new();
    for r in &s.regions {
        if r.start % PAGE_SIZE != 0 {
            p("unaligned_start", format!("{r:?}"));
        }
        if r.reserved % PAGE_SIZE != 0 || r.reserved < PAGE_SIZE {
            p("bad_reserved", format!("{r:?}"));
        }
        if r.len > r.reserved {
            p("len_exceeds_reserved", format!("{r:?}"));
        }
        if r.start + r.reserved > s.file_len {
            p(
                "extent_outside_file",
                format!("{r:?} file_len {}", s.file_len),
            );
        }
        ext.push((r.start, r.reserved, format!("region '{}'", r.name)));
    }
    for (a, b) in &s.holes {
        ext.push((*a, *b, "hole".into()));
    }
    for (a, b) in &s.pending {
        ext.push((*a, *b, "pending-hole".into()));
    }
    for (a, b) in &s.reserved {
        ext.push((*a, *b, "reservation".into()));
    }
    if !s.reserved.is_empty() {
        p("reservation_left", format!("{:?}", s.reserved));
    }
    ext.sort();
    let mut pos = 0usize;
    for (start, size, what) in &ext {
        if *start < pos {
            p(
                "overlap",
                format!("{what} at {start}+{size} overlaps previous extent ending at {pos}"),
            );
        } else if *start > pos {
            p(
                "gap",
                format!("bytes {pos}..{start} belong to nothing (next: {what})"),
            );
        }
        pos = pos.max(start + size);
    }
    if pos != s.layout_len {
        p(
            "allocated_end",
            format!("extents end at {pos}, Layout::len() = {}", s.layout_len),
        );
    }
    for w in s.holes.windows(2) {
        if w[0].0 + w[0].1 == w[1].0 {
            p("adjacent_holes", format!("{:?} {:?}", w[0], w[1]));
        }
    }
    // hole_to_starts is the exact inverse of start_to_hole
    let mut inv: BTreeMap<usize, Vec<usize>> = BTreeMap::new();
    for (a, b) in &s.holes {
        inv.entry(*b).or_default().push(*a);
    }
    let inv: Vec<(usize, Vec<usize>)> = inv.into_iter().collect();
    if inv != s.hole_to_starts {
        p(
            "hole_index",
            format!("start_to_hole {:?} vs hole_to_starts {:?}", s.holes, s.hole_to_starts),
        );
    }
    // start_to_region agrees with metadata
    let mut from_meta: Vec<(usize, usize)> = s.regions.iter().map(|r| (r.start, r.index)).collect();
    from_meta.sort();
    if from_meta != s.layout_regions {
        p(
            "region_index",
            format!("metadata {:?} vs layout {:?}", from_meta, s.layout_regions),
        );
    }
    let names: HashSet<&str> = s.regions.iter().map(|r| r.name.as_str()).collect();
    if names.len() != s.regions.len() {
        p("duplicate_name", format!("{:?}", s.regions));
    }
    out
}

fn snapshot_key_bytes(s: &Snapshot, with_flags: bool) -> Vec<u8> {
    let mut regs = s.regions.clone();
    if !with_flags {
        for r in regs.iter_mut() {
            r.state = 0;
            r.dirty = (0, 0);
        }
    }
    format!(
        "{} {} {} {:?} {:?} {:?} {:?}",
        s.file_len, s.regions_file_len, s.slots, regs, s.holes, s.pending, s.reserved
    )
    .into_bytes()
}

impl RawSys {
    fn db(&self) -> &Database {
        self.db.as_ref().unwrap()
    }

    fn region(&self, n: u8) -> Option<Region> {
        self.db().get_region(NAMES[n as usize])
    }

    fn bump(&mut self, k: &'static str) {
        *self.counters.entry(k).or_default() += 1;
    }

    fn read_all(&self) -> BTreeMap<String, Vec<u8>> {
        let mut out = BTreeMap::new();
        let regs: Vec<Region> = self
            .db()
            .regions()
            .index_to_region()
            .iter()
            .flatten()
            .cloned()
            .collect();
        for r in regs {
            let name = r.meta().id().to_string();
            let bytes = r.create_reader().read_all().to_vec();
            out.insert(name, bytes);
        }
        out
    }

    fn note_version(&mut self, n: u8) {
        if let Some(h) = self.reader.as_mut() {
            if h.name == n {
                if let Some(m) = self.model.get(&n) {
                    h.versions.push(m.bytes.clone());
                }
            }
        }
    }

    pub(crate) fn off(&self, n: u8, o: Off) -> usize {
        let len = self.model.get(&n).map_or(0, |m| m.bytes.len());
        match o {
            Off::Zero => 0,
            Off::Mid => len / 2,
            Off::End => len,
        }
    }

    /// Executes the real operation. Returns Ok(()) / Err(error variant name).
    pub(crate) fn exec(&mut self, op: &RawOp) -> Result<(), String> {
        fn e(err: Error) -> String {
            let s = format!("{err:?}");
            s.split([' ', '(', '{']).next().unwrap_or("").to_string()
        }
        match op {
            RawOp::Create(n) => self
                .db()
                .create_region_if_needed(NAMES[*n as usize])
                .map(|_| ())
                .map_err(e),
            RawOp::Write(n, sz) => {
                let len = self.off(*n, Off::End);
                let d = data(*n, len, *sz, self.generation[*n as usize]);
                self.region(*n).unwrap().write(&d).map_err(e)
            }
            RawOp::WriteAt(n, o, sz) => {
                let at = self.off(*n, *o);
                let d = data(*n, at, *sz, self.generation[*n as usize]);
                self.region(*n).unwrap().write_at(&d, at).map_err(e)
            }
            RawOp::BatchWrite(n, o, k) => {
                let at = self.off(*n, *o);
                let g = self.generation[*n as usize];
                let items: Vec<(usize, Vec<u8>)> = (0..*k as usize).map(|i| (at + 8 * i, data(*n, at + 8 * i, 4, g))).collect();
                self.region(*n).unwrap().batch_write_each(items.into_iter(), 4, |v, dst| dst.copy_from_slice(v));
                Ok(())
            }
            RawOp::WriteBeyond(n) => {
                let at = self.off(*n, Off::End) + 1;
                self.region(*n).unwrap().write_at(&[0xEE; 3], at).map_err(e)
            }
            RawOp::Truncate(n, o) => {
                let at = self.off(*n, *o);
                self.region(*n).unwrap().truncate(at).map_err(e)
            }
            RawOp::TruncateBeyond(n) => {
                let at = self.off(*n, Off::End) + 1;
                self.region(*n).unwrap().truncate(at).map_err(e)
            }
            RawOp::TruncateWrite(n, o, sz) => {
                let at = self.off(*n, *o);
                let d = data(*n, at, *sz, self.generation[*n as usize]);
                self.region(*n).unwrap().truncate_write(at, &d).map_err(e)
            }
            RawOp::Rename(n, m) => self
                .region(*n)
                .unwrap()
                .rename(NAMES[*m as usize])
                .map_err(e),
            RawOp::Remove(n) => {
                // both public entry points, alternating with the region's write generation
                if self.generation[*n as usize] == 1 {
                    self.db().remove_region_if_exists(NAMES[*n as usize]).map_err(e)
                } else {
                    self.db().remove_region(NAMES[*n as usize]).map_err(e)
                }
            }
            RawOp::RemoveMissing => self.db().remove_region_if_exists("no_such_region").map_err(e),
            RawOp::SetMinLen(grow) => {
                let want = if *grow { self.db().file_len() + 1 } else { 1 };
                let r = self.db().set_min_len(want).map_err(e);
                if r.is_ok() && self.db().file_len() < want {
                    return Err("set_min_len returned Ok but the file is shorter than requested".into());
                }
                r
            }
            RawOp::RemoveHeld(n) => {
                let held = self.region(*n).unwrap();
                let r = self.db().remove_region(NAMES[*n as usize]).map_err(e);
                drop(held);
                r
            }
            RawOp::Retain(mask) => {
                let keep: std::collections::HashSet<String> = (0..4u8)
                    .filter(|i| mask & (1 << i) != 0)
                    .map(|i| NAMES[i as usize].to_string())
                    .collect();
                self.db().retain_regions(keep).map_err(e)
            }
            RawOp::RetainHeld(mask, h) => {
                let held = self.region(*h).unwrap();
                let keep: std::collections::HashSet<String> = (0..4u8)
                    .filter(|i| mask & (1 << i) != 0)
                    .map(|i| NAMES[i as usize].to_string())
                    .collect();
                let r = self.db().retain_regions(keep).map_err(e);
                drop(held);
                r
            }
            RawOp::Flush => self.db().flush().map(|_| ()).map_err(e),
            RawOp::RegionFlush(n) => self.region(*n).unwrap().flush().map(|_| ()).map_err(e),
            RawOp::Compact => self.db().compact().map_err(e),
            RawOp::Reopen => {
                self.db().flush().map_err(e)?;
                self.db = None;
                self.db = Some(Database::open(&self.dir).map_err(e)?);
                Ok(())
            }
            RawOp::OpenReader(n) => {
                let r = self.region(*n).unwrap();
                let reader = r.create_reader();
                drop(r);
                self.reader = Some(HeldReader {
                    reader,
                    name: *n,
                    versions: vec![self.model[n].bytes.clone()],
                });
                Ok(())
            }
            RawOp::CheckReader => Ok(()),
            RawOp::DropReader => {
                self.reader = None;
                Ok(())
            }
        }
    }

    /// Expected outcome and model update. Returns the expected result.
    pub(crate) fn model_apply(&mut self, op: &RawOp) -> Result<(), &'static str> {
        let reader_on = self.reader.as_ref().map(|h| h.name);
        match op {
            RawOp::Create(n) => {
                self.model.entry(*n).or_default();
                Ok(())
            }
            RawOp::Write(n, sz) => {
                let g = self.generation[*n as usize];
                let m = self.model.get_mut(n).unwrap();
                let len = m.bytes.len();
                m.bytes.extend(data(*n, len, *sz, g));
                if *sz > 0 {
                    m.durable = true;
                }
                self.generation[*n as usize] ^= 1;
                Ok(())
            }
            RawOp::BatchWrite(n, o, k) => {
                let at = self.off(*n, *o);
                let g = self.generation[*n as usize];
                let m = self.model.get_mut(n).unwrap();
                for i in 0..*k as usize {
                    let d = data(*n, at + 8 * i, 4, g);
                    m.bytes[at + 8 * i..at + 8 * i + 4].copy_from_slice(&d);
                }
                self.generation[*n as usize] ^= 1;
                Ok(())
            }
            RawOp::WriteAt(n, o, sz) => {
                let at = self.off(*n, *o);
                let g = self.generation[*n as usize];
                let m = self.model.get_mut(n).unwrap();
                let d = data(*n, at, *sz, g);
                if m.bytes.len() < at + sz {
                    m.bytes.resize(at + sz, 0);
                }
                m.bytes[at..at + sz].copy_from_slice(&d);
                if *sz > 0 {
                    m.durable = true;
                }
                self.generation[*n as usize] ^= 1;
                Ok(())
            }
            RawOp::WriteBeyond(_) => Err("WriteOutOfBounds"),
            RawOp::Truncate(n, o) => {
                let at = self.off(*n, *o);
                self.model.get_mut(n).unwrap().bytes.truncate(at);
                Ok(())
            }
            RawOp::TruncateBeyond(_) => Err("TruncateInvalid"),
            RawOp::TruncateWrite(n, o, sz) => {
                let at = self.off(*n, *o);
                let g = self.generation[*n as usize];
                let m = self.model.get_mut(n).unwrap();
                m.bytes.truncate(at);
                m.bytes.extend(data(*n, at, *sz, g));
                if *sz > 0 {
                    m.durable = true;
                }
                self.generation[*n as usize] ^= 1;
                Ok(())
            }
            RawOp::Rename(n, m) => {
                if self.model.contains_key(m) {
                    return Err("RegionAlreadyExists");
                }
                let mut r = self.model.remove(n).unwrap();
                r.durable = true;
                self.model.insert(*m, r);
                if let Some(h) = self.reader.as_mut() {
                    if h.name == *n {
                        h.name = *m;
                    }
                }
                Ok(())
            }
            RawOp::Remove(n) => {
                if reader_on == Some(*n) {
                    return Err("RegionStillReferenced");
                }
                self.model.remove(n);
                Ok(())
            }
            RawOp::RemoveHeld(_) => Err("RegionStillReferenced"),
            RawOp::Retain(mask) => {
                // refused iff the held reader's region would have to go
                if let Some(rn) = reader_on {
                    if mask & (1 << rn) == 0 && self.model.contains_key(&rn) {
                        return Err("RegionStillReferenced*");
                    }
                }
                self.model.retain(|k, _| mask & (1 << k) != 0);
                Ok(())
            }
            RawOp::RetainHeld(..) => Err("RegionStillReferenced*"),
            // A region whose metadata slot was never written (created, never grown, never
            // renamed) refuses Region::flush by design; treated as a refusal (no effect).
            RawOp::RegionFlush(n) => {
                if self.model[n].durable {
                    Ok(())
                } else {
                    Err("RegionMetadataUnwritten")
                }
            }
            RawOp::Flush | RawOp::Compact | RawOp::RemoveMissing | RawOp::SetMinLen(_) => Ok(()),
            RawOp::Reopen => Ok(()),
            RawOp::OpenReader(_) | RawOp::CheckReader | RawOp::DropReader => Ok(()),
        }
    }

    fn target(op: &RawOp) -> Option<u8> {
        match op {
            RawOp::Write(n, _)
            | RawOp::WriteAt(n, ..)
            | RawOp::BatchWrite(n, ..)
            | RawOp::Truncate(n, _)
            | RawOp::TruncateWrite(n, ..) => Some(*n),
            RawOp::Rename(_, m) => Some(*m),
            _ => None,
        }
    }
}

impl Sys for RawSys {
    type Op = RawOp;
    type Cfg = RawCfg;

    fn init(cfg: &RawCfg, dir: &Path) -> Self {
        tap::ensure_installed();
        let db = Database::open_with_min_len(dir, cfg.min_len).expect("open");
        if cfg.min_regions > 0 {
            db.set_min_regions(cfg.min_regions).expect("set_min_regions");
        }
        let mut this = Self {
            dir: dir.to_path_buf(),
            db: Some(db),
            model: BTreeMap::new(),
            generation: [0; 4],
            reader: None,
            counters: BTreeMap::new(),
        };
        for n in 0..cfg.prefill as u8 {
            for op in [RawOp::Create(n), RawOp::Write(n, cfg.prefill_bytes)] {
                this.exec(&op).expect("prefill");
                this.model_apply(&op).expect("prefill model");
            }
        }
        if cfg.prefill > 0 {
            this.exec(&RawOp::Flush).expect("prefill flush");
        }
        this
    }

    fn ops(&self, cfg: &RawCfg) -> Vec<RawOp> {
        let mut v = Vec::new();
        let n_names = cfg.names as u8;
        let reader_on = self.reader.as_ref().map(|h| h.name);
        for n in 0..n_names {
            let Some(m) = self.model.get(&n) else {
                if cfg.has("create") {
                    v.push(RawOp::Create(n));
                }
                continue;
            };
            let len = m.bytes.len();
            if cfg.has("write") {
                for &s in &cfg.sizes {
                    v.push(RawOp::Write(n, s));
                }
            }
            let offs: Vec<Off> = cfg
                .offs
                .iter()
                .copied()
                .filter(|o| match o {
                    Off::Zero => true,
                    Off::Mid => len >= 2,
                    Off::End => len >= 1,
                })
                .collect();
            if cfg.has("write_at") {
                for &o in &offs {
                    for &s in &cfg.at_sizes {
                        v.push(RawOp::WriteAt(n, o, s));
                    }
                }
            }
            if cfg.has("batch_write") {
                for o in [Off::Zero, Off::Mid] {
                    let at = match o {
                        Off::Zero => 0,
                        _ => len / 2,
                    };
                    for k in [1u8, 2] {
                        if (o == Off::Zero || len >= 2) && at + 8 * (k as usize - 1) + 4 <= len {
                            v.push(RawOp::BatchWrite(n, o, k));
                        }
                    }
                }
            }
            if cfg.has("refused") {
                v.push(RawOp::WriteBeyond(n));
                v.push(RawOp::TruncateBeyond(n));
            }
            if cfg.has("truncate") {
                for &o in &offs {
                    if o != Off::End {
                        if len > 0 {
                            v.push(RawOp::Truncate(n, o));
                        }
                    }
                }
            }
            if cfg.has("truncate_write") {
                for &o in &offs {
                    if o != Off::End {
                        for &s in &cfg.at_sizes {
                            v.push(RawOp::TruncateWrite(n, o, s));
                        }
                    }
                }
            }
            if cfg.has("rename") {
                for m2 in 0..n_names {
                    if m2 != n && (cfg.has("refused") || !self.model.contains_key(&m2)) {
                        v.push(RawOp::Rename(n, m2));
                    }
                }
            }
            if cfg.has("remove") {
                v.push(RawOp::Remove(n));
            }
            if cfg.has("refused") && cfg.has("remove") && reader_on != Some(n) {
                v.push(RawOp::RemoveHeld(n));
            }
            if cfg.has("region_flush") {
                v.push(RawOp::RegionFlush(n));
            }
            if cfg.readers && self.reader.is_none() {
                v.push(RawOp::OpenReader(n));
            }
        }
        if cfg.has("retain") && !self.model.is_empty() {
            let full: u8 = (1 << n_names) - 1;
            for mask in 0..full {
                // only masks that remove at least one existing region
                let removes: Vec<u8> = self
                    .model
                    .keys()
                    .copied()
                    .filter(|k| mask & (1 << k) == 0)
                    .collect();
                if removes.is_empty() {
                    continue;
                }
                // retain_regions removes one region after the other in hash-map order, so a
                // refusal is only deterministic (and only "a refused request") when the
                // blocked region is the only one to go.
                let blocked_by_reader = reader_on.is_some_and(|rn| removes.contains(&rn));
                if blocked_by_reader && removes.len() > 1 {
                    continue;
                }
                v.push(RawOp::Retain(mask));
                if cfg.has("refused") && reader_on.is_none() && removes.len() == 1 {
                    v.push(RawOp::RetainHeld(mask, removes[0]));
                }
            }
        }
        if cfg.has("flush") {
            v.push(RawOp::Flush);
        }
        if cfg.has("refused") && cfg.has("remove") {
            v.push(RawOp::RemoveMissing);
        }
        if cfg.has("set_min_len") {
            v.push(RawOp::SetMinLen(false));
            // a held Reader and file growth on the same thread is the documented deadlock
            if self.reader.is_none() && self.db().file_len() < 8 << 20 {
                v.push(RawOp::SetMinLen(true));
            }
        }
        if cfg.has("compact") {
            v.push(RawOp::Compact);
        }
        if cfg.has("reopen") && self.reader.is_none() {
            v.push(RawOp::Reopen);
        }
        if self.reader.is_some() {
            // the reader oracle runs after every step, so there is no separate "check" op
            v.push(RawOp::DropReader);
        }
        v
    }

    fn apply(&mut self, _cfg: &RawCfg, op: &RawOp, check: bool) -> Step {
        let mut viols: Vec<Violation> = Vec::new();
        let kind = op.kind();
        let dir = self.dir.clone();

        let pre = if check {
            Some(snapshot(self.db(), &dir))
        } else {
            None
        };
        let pre_key = if check { Some(self.key()) } else { None };
        let pre_contents = if check { Some(self.read_all()) } else { None };
        let watch_fd = if check && matches!(op, RawOp::Compact) {
            let fd = self.db().file().as_raw_fd();
            tap::watch_punches(fd);
            Some(fd)
        } else {
            None
        };

        // situation class of the pre-state for signatures
        let situation = if let Some(pre) = &pre {
            let mut s = String::new();
            if !pre.pending.is_empty() {
                s.push_str("pending_holes;");
            }
            if !pre.holes.is_empty() {
                s.push_str("holes;");
            }
            if let Some(h) = &self.reader {
                s.push_str("reader_held;");
                let now = pre
                    .regions
                    .iter()
                    .find(|r| r.name == NAMES[h.name as usize])
                    .map(|r| r.start);
                if now != Some(h.reader.verif_start()) {
                    s.push_str("reader_region_relocated;");
                }
            }
            s
        } else {
            String::new()
        };

        let result = guarded(|| self.exec(op));
        let expected = self.model_apply(op);
        if let Some(t) = Self::target(op) {
            if expected.is_ok() {
                self.note_version(t);
            }
        }

        let result = match result {
            Ok(r) => r,
            Err(panic) => {
                let loc = panic.split(": ").next().unwrap_or("?").to_string();
                viols.push(Violation {
                    property: if expected.is_err() { "C13" } else { "C01" }.into(),
                    signature: format!("{kind}|{situation}|panic:{loc}"),
                    detail: format!("panicked: {panic}"),
                });
                // The database may be poisoned; replace it so that key() still works.
                if self.db.is_none() {
                    self.db = Database::open(&dir).ok();
                }
                return Step {
                    obs: hash64(&("panic", kind)),
                    violations: viols,
                };
            }
        };

        if !check {
            // Re-synchronise the model with what a reopen kept (documented latitude).
            if matches!(op, RawOp::Reopen) && result.is_ok() {
                self.resync_after_reopen(&mut Vec::new());
            }
            return Step {
                obs: 0,
                violations: viols,
            };
        }

        // --- outcome
        match (&result, &expected) {
            (Ok(()), Ok(())) => {}
            (Err(e), Err(x)) => {
                let x0 = x.trim_end_matches('*');
                if e != x0 {
                    viols.push(Violation {
                        property: "C13".into(),
                        signature: format!("{kind}|{situation}|error_variant:{e}"),
                        detail: format!("expected error {x0}, got {e}"),
                    });
                }
            }
            (Ok(()), Err(x)) => viols.push(Violation {
                property: "C13".into(),
                signature: format!("{kind}|{situation}|accepted"),
                detail: format!("request should have been refused with {x} but succeeded"),
            }),
            (Err(e), Ok(())) => viols.push(Violation {
                property: "C01".into(),
                signature: format!("{kind}|{situation}|error:{e}"),
                detail: format!("operation failed with {e}"),
            }),
        }

        if matches!(op, RawOp::Reopen) && result.is_ok() {
            self.resync_after_reopen(&mut viols);
        }

        let post = snapshot(self.db(), &dir);
        let pre = pre.unwrap();

        // --- C13: a refused request has no effect
        if expected.is_err() && result.is_err() {
            let now = self.read_all();
            if Some(&now) != pre_contents.as_ref() {
                viols.push(Violation {
                    property: "C13".into(),
                    signature: format!("{kind}|{situation}|contents_changed"),
                    detail: "region names/lengths/bytes differ after a refused request".into(),
                });
            } else if snapshot_key_bytes(&post, false) != snapshot_key_bytes(&pre, false) {
                viols.push(Violation {
                    property: "C13".into(),
                    signature: format!("{kind}|{situation}|layout_changed"),
                    detail: format!(
                        "allocator state differs after a refused request: before {:?} pending {:?} holes {:?}; after {:?} pending {:?} holes {:?}",
                        pre.layout_regions, pre.pending, pre.holes, post.layout_regions, post.pending, post.holes
                    ),
                });
            } else if Some(self.key()) != pre_key {
                viols.push(Violation {
                    property: "C13".into(),
                    signature: format!("{kind}|{situation}|hidden_state_changed"),
                    detail: "dirty flags / dirty bounds differ after a refused request (later flush() results would differ)".into(),
                });
            }
        }

        // --- C01: every region equals its model
        let now = self.read_all();
        let model_names: BTreeSet<String> = self
            .model
            .keys()
            .map(|k| NAMES[*k as usize].to_string())
            .collect();
        let impl_names: BTreeSet<String> = now.keys().cloned().collect();
        if model_names != impl_names {
            viols.push(Violation {
                property: "C01".into(),
                signature: format!("{kind}|{situation}|names"),
                detail: format!("live regions {impl_names:?}, expected {model_names:?}"),
            });
        } else {
            for (k, m) in &self.model {
                let name = NAMES[*k as usize];
                let got = &now[name];
                if got != &m.bytes {
                    let target = Self::target(op) == Some(*k);
                    let what = if got.len() != m.bytes.len() {
                        "length"
                    } else {
                        "bytes"
                    };
                    let first = got
                        .iter()
                        .zip(m.bytes.iter())
                        .position(|(a, b)| a != b)
                        .unwrap_or(got.len().min(m.bytes.len()));
                    viols.push(Violation {
                        property: "C01".into(),
                        signature: format!(
                            "{kind}|{situation}|{}_{what}",
                            if target { "target" } else { "other_region" }
                        ),
                        detail: format!(
                            "region '{name}': len {} expected {}, first difference at offset {first}",
                            got.len(),
                            m.bytes.len()
                        ),
                    });
                }
            }
        }

        // --- C02: extent invariants
        for (k, d) in layout_problems(&post) {
            viols.push(Violation {
                property: "C02".into(),
                signature: format!("{kind}|{situation}|{k}"),
                detail: d,
            });
        }
        // placement rule
        if result.is_ok() {
            let grew = post.layout_len > pre.layout_len;
            match op {
                RawOp::Create(n) => {
                    let existed = pre.regions.iter().any(|r| r.name == NAMES[*n as usize]);
                    if !existed {
                        let fits = pre.holes.iter().any(|(_, sz)| *sz >= PAGE_SIZE);
                        self.bump(if fits { "create:in_hole" } else { "create:at_end" });
                        if fits && grew {
                            viols.push(Violation {
                                property: "C02".into(),
                                signature: format!("{kind}|{situation}|grew_despite_hole"),
                                detail: format!(
                                    "holes {:?} available but allocated area grew {} -> {}",
                                    pre.holes, pre.layout_len, post.layout_len
                                ),
                            });
                        }
                    }
                }
                RawOp::Write(n, _) | RawOp::WriteAt(n, ..) | RawOp::TruncateWrite(n, ..) => {
                    let name = NAMES[*n as usize];
                    let a = pre.regions.iter().find(|r| r.name == name);
                    let b = post.regions.iter().find(|r| r.name == name);
                    if let (Some(a), Some(b)) = (a, b) {
                        if a.start != b.start {
                            let fits = pre.holes.iter().any(|(_, sz)| *sz >= b.reserved);
                            self.bump(if fits {
                                "write:relocate_into_hole"
                            } else {
                                "write:relocate_to_end"
                            });
                            if fits && grew {
                                viols.push(Violation {
                                    property: "C02".into(),
                                    signature: format!("{kind}|{situation}|grew_despite_hole"),
                                    detail: format!(
                                        "relocation needs {} ; holes {:?} available but allocated area grew {} -> {}",
                                        b.reserved, pre.holes, pre.layout_len, post.layout_len
                                    ),
                                });
                            }
                        } else if a.reserved != b.reserved {
                            let was_last = pre.layout_len == a.start + a.reserved;
                            self.bump(if was_last {
                                "write:extend_last"
                            } else {
                                "write:expand_into_adjacent_hole"
                            });
                        } else {
                            self.bump("write:fits_in_reserve");
                        }
                    }
                }
                _ => {}
            }
        }
        // after a completed flush nothing is pending
        if matches!(op, RawOp::Flush | RawOp::Compact | RawOp::Reopen)
            && result.is_ok()
            && !post.pending.is_empty()
        {
            viols.push(Violation {
                property: "C02".into(),
                signature: format!("{kind}|{situation}|pending_after_flush"),
                detail: format!("{:?}", post.pending),
            });
        }

        // --- C12 (sequential part): compaction leaves live regions and the file length alone
        if let Some(fd) = watch_fd {
            let punches = tap::take_punches(fd);
            let geom = |s: &Snapshot| -> Vec<(String, usize, usize, usize)> {
                s.regions
                    .iter()
                    .map(|r| (r.name.clone(), r.start, r.len, r.reserved))
                    .collect()
            };
            if geom(&pre) != geom(&post) {
                viols.push(Violation {
                    property: "C12".into(),
                    signature: format!("{kind}|{situation}|placement_changed"),
                    detail: format!("{:?} -> {:?}", geom(&pre), geom(&post)),
                });
            }
            if pre.file_len != post.file_len || pre.real_file_len != post.real_file_len {
                viols.push(Violation {
                    property: "C12".into(),
                    signature: format!("{kind}|{situation}|file_len_changed"),
                    detail: format!("{} -> {}", pre.real_file_len, post.real_file_len),
                });
            }
            if pre_contents.as_ref() != Some(&now) {
                viols.push(Violation {
                    property: "C12".into(),
                    signature: format!("{kind}|{situation}|contents_changed"),
                    detail: "readable bytes of a live region changed across compact()".into(),
                });
            }
            self.counters
                .entry("compact:punches")
                .and_modify(|c| *c += punches.len() as u64)
                .or_insert(punches.len() as u64);
            for (off, len) in punches {
                let in_reserve = post.regions.iter().any(|r| {
                    let lo = r.start + r.len.div_ceil(PAGE_SIZE) * PAGE_SIZE;
                    off >= lo && off + len <= r.start + r.reserved
                });
                let in_hole = post
                    .holes
                    .iter()
                    .any(|(s, sz)| off >= *s && off + len <= s + sz);
                if !(in_reserve || in_hole) {
                    viols.push(Violation {
                        property: "C12".into(),
                        signature: format!("{kind}|{situation}|punch_outside_free_space"),
                        detail: format!(
                            "punched {off}+{len}; regions {:?}; holes {:?}",
                            geom(&post),
                            post.holes
                        ),
                    });
                }
            }
        }

        // --- C10 reader clause (sequential pass)
        if let Some(h) = &self.reader {
            let got = guarded(|| h.reader.read_all().to_vec());
            match got {
                Err(p) => viols.push(Violation {
                    property: "C10".into(),
                    signature: format!("{kind}|{situation}|reader_panic"),
                    detail: p,
                }),
                Ok(bytes) => {
                    let bad = bytes.iter().enumerate().position(|(i, b)| {
                        !h.versions.iter().any(|v| v.get(i) == Some(b))
                    });
                    if let Some(i) = bad {
                        viols.push(Violation {
                            property: "C10".into(),
                            signature: format!("{kind}|{situation}|reader_foreign_bytes"),
                            detail: format!(
                                "reader on '{}' (snapshot len {}) returns byte {:#x} at offset {i}, which the region never held since the reader was created",
                                NAMES[h.name as usize],
                                bytes.len(),
                                bytes[i]
                            ),
                        });
                    }
                }
            }
        }

        let obs = hash64(&(format!("{result:?}"), &now, snapshot_key_bytes(&post, true)));
        Step {
            obs,
            violations: viols,
        }
    }

    fn key(&self) -> Key {
        let s = snapshot(self.db(), &self.dir);
        let mut bytes = snapshot_key_bytes(&s, true);
        for (name, content) in self.read_all() {
            bytes.extend_from_slice(name.as_bytes());
            bytes.extend_from_slice(&hash128(&content).to_le_bytes());
        }
        bytes.extend_from_slice(&self.generation);
        for (k, m) in &self.model {
            bytes.push(*k);
            bytes.push(m.durable as u8);
        }
        if let Some(h) = &self.reader {
            bytes.push(0xFE);
            bytes.push(h.name);
            bytes.extend_from_slice(&h.reader.verif_start().to_le_bytes());
            bytes.extend_from_slice(&h.reader.len().to_le_bytes());
            for v in &h.versions {
                bytes.extend_from_slice(&hash128(v).to_le_bytes());
            }
        }
        hash128(&bytes)
    }

    fn take_counters(&mut self) -> Vec<(&'static str, u64)> {
        std::mem::take(&mut self.counters).into_iter().collect()
    }

    fn abort_verdict(_cfg: &RawCfg, op: &RawOp) -> (String, String) {
        ("C01".into(), format!("{}||process_abort", op.kind()))
    }
    fn op_timeout_ms(_cfg: &RawCfg) -> u64 {
        60_000
    }
}

impl RawSys {
    /// After a reopen: regions that ever held data or were renamed must be back; regions
    /// that never did may have vanished (the statement leaves that open) — adopt what the
    /// implementation kept.
    fn resync_after_reopen(&mut self, viols: &mut Vec<Violation>) {
        let live: BTreeSet<String> = self
            .db()
            .regions()
            .index_to_region()
            .iter()
            .flatten()
            .map(|r| r.meta().id().to_string())
            .collect();
        let mut gone = Vec::new();
        for (k, m) in &self.model {
            if !live.contains(NAMES[*k as usize]) {
                if m.durable {
                    viols.push(Violation {
                        property: "C01".into(),
                        signature: "reopen||lost_region".into(),
                        detail: format!(
                            "region '{}' held data or was renamed but is gone after flush + reopen",
                            NAMES[*k as usize]
                        ),
                    });
                }
                gone.push(*k);
            }
        }
        for k in gone {
            self.model.remove(&k);
        }
    }
}

impl Drop for RawSys {
    fn drop(&mut self) {
        self.reader = None;
        self.db = None;
    }
}
