//! Profiles (alphabets + bounds) of the rawx engine per property and tier.

use std::{collections::BTreeSet, time::Duration};

use serde_json::json;

use crate::{
    rawx::{Off, RawCfg, RawSys},
    report::{KnownFindings, Run, absorb},
    scratch::Scratch,
    seqx::{self, Limits, Sys},
};

fn kinds(list: &[&'static str]) -> BTreeSet<&'static str> {
    list.iter().copied().collect()
}

const MIB: usize = 1024 * 1024;

fn profile(name: &str) -> RawCfg {
    let base = RawCfg {
        label: name.to_string(),
        names: 2,
        sizes: vec![],
        at_sizes: vec![],
        offs: vec![Off::Zero, Off::End],
        kinds: BTreeSet::new(),
        min_len: 0,
        min_regions: 0,
        readers: false,
        prefill: 0,
        prefill_bytes: 0,
    };
    match name {
        // growth, relocation, reuse of freed space
        "alloc" => RawCfg {
            names: 3,
            sizes: vec![4096, 9000],
            kinds: kinds(&["create", "write", "remove", "flush", "compact", "reopen"]),
            ..base
        },
        "alloc_small" => RawCfg {
            names: 3,
            sizes: vec![1, 4097],
            kinds: kinds(&["create", "write", "remove", "flush", "reopen"]),
            ..base
        },
        // free-extent bookkeeping: many small regions, removals in every order, flushes
        "holes4" => RawCfg {
            names: 4,
            sizes: vec![],
            kinds: kinds(&["create", "remove", "flush"]),
            ..base
        },
        "holes4w" => RawCfg {
            names: 4,
            sizes: vec![9000],
            kinds: kinds(&["create", "write", "remove", "flush", "reopen"]),
            ..base
        },
        // start from four flushed one-page regions: growth into neighbours' freed space
        "prefilled4" => RawCfg {
            names: 4,
            sizes: vec![9000, 13000],
            kinds: kinds(&["write", "remove", "flush"]),
            prefill: 4,
            prefill_bytes: 100,
            ..base
        },
        // four flushed regions with data; removals, flushes and compaction in every order
        "prefilled4cw" => RawCfg {
            names: 4,
            sizes: vec![5000],
            kinds: kinds(&["create", "write", "remove", "flush", "compact"]),
            prefill: 4,
            prefill_bytes: 100,
            ..base
        },
        "prefilled4c" => RawCfg {
            names: 4,
            sizes: vec![],
            kinds: kinds(&["remove", "flush", "compact"]),
            prefill: 4,
            prefill_bytes: 100,
            ..base
        },
        // crash exploration: two flushed regions, then appends / relocations / removals / flushes
        "crash2" => RawCfg {
            names: 3,
            sizes: vec![100, 9000],
            kinds: kinds(&["create", "write", "remove", "flush", "region_flush", "compact"]),
            prefill: 2,
            prefill_bytes: 100,
            ..base
        },
        "crash3" => RawCfg {
            names: 3,
            sizes: vec![5000],
            kinds: kinds(&["create", "write", "remove", "rename", "flush", "compact"]),
            prefill: 3,
            prefill_bytes: 100,
            ..base
        },
        "crash_fresh" => RawCfg {
            names: 2,
            sizes: vec![100, 9000],
            kinds: kinds(&["create", "write", "remove", "flush"]),
            ..base
        },
        "crash_edit" => RawCfg {
            names: 2,
            sizes: vec![100],
            at_sizes: vec![50, 5000],
            offs: vec![Off::Zero, Off::Mid],
            kinds: kinds(&["write", "write_at", "batch_write", "truncate", "truncate_write", "rename", "flush", "region_flush"]),
            prefill: 2,
            prefill_bytes: 3000,
            ..base
        },
        // in-place updates of flushed bytes (write_at, batch_write_each) and their durability
        "crash_inplace" => RawCfg {
            names: 2,
            sizes: vec![],
            at_sizes: vec![50],
            offs: vec![Off::Zero],
            kinds: kinds(&["write_at", "batch_write", "remove", "flush"]),
            prefill: 2,
            prefill_bytes: 3000,
            ..base
        },
        "crash_compact" => RawCfg {
            names: 3,
            sizes: vec![5000],
            kinds: kinds(&["create", "write", "truncate", "remove", "flush", "compact"]),
            prefill: 3,
            prefill_bytes: 5000,
            ..base
        },
        // positional writes and truncations
        "edit" => RawCfg {
            names: 2,
            sizes: vec![1, 4097],
            at_sizes: vec![1, 5000],
            offs: vec![Off::Zero, Off::Mid, Off::End],
            kinds: kinds(&[
                "create", "write", "write_at", "batch_write", "truncate", "truncate_write", "flush",
                "reopen", "refused",
            ]),
            ..base
        },
        // names: rename / retain / remove and their refusals
        "names" => RawCfg {
            names: 3,
            sizes: vec![100],
            kinds: kinds(&[
                "create", "write", "rename", "remove", "retain", "flush", "reopen", "refused",
                "region_flush",
            ]),
            ..base
        },
        // everything, full size set
        "full" => RawCfg {
            names: 2,
            sizes: vec![0, 1, 100, 4095, 4096, 4097, 9000, 20000],
            at_sizes: vec![0, 1, 4096, 9000],
            offs: vec![Off::Zero, Off::Mid, Off::End],
            kinds: kinds(&[
                "create", "write", "write_at", "batch_write", "truncate", "truncate_write", "rename",
                "remove", "retain", "flush", "region_flush", "compact", "reopen", "refused",
            ]),
            ..base
        },
        "full3" => RawCfg {
            names: 3,
            ..profile("full")
        },
        // partially used reserves + compaction
        "compact" => RawCfg {
            names: 2,
            sizes: vec![1, 5000, 9000],
            kinds: kinds(&["create", "write", "truncate", "remove", "flush", "compact"]),
            ..base
        },
        // reader lifetime vs relocation / flush / reuse (file pre-sized: no growth while a
        // reader is held, so the documented same-thread growth deadlock cannot occur)
        "reader" => RawCfg {
            names: 2,
            sizes: vec![4096, 9000],
            kinds: kinds(&["create", "write", "remove", "flush", "compact"]),
            min_len: 8 * MIB,
            readers: true,
            ..base
        },
        // initial configurations
        "alloc_minlen_page" => {
            let mut c = RawCfg {
                min_len: 4096,
                ..profile("alloc")
            };
            // the file is also grown explicitly between operations
            c.kinds.insert("set_min_len");
            c
        }
        "alloc_minlen_big" => RawCfg {
            min_len: MIB + 4096,
            ..profile("alloc")
        },
        "alloc_minregions1" => RawCfg {
            min_regions: 1,
            ..profile("alloc")
        },
        "alloc_minregions5" => RawCfg {
            min_regions: 5,
            ..profile("alloc")
        },
        _ => panic!("unknown profile {name}"),
    }
    .relabel(name)
}

impl RawCfg {
    fn relabel(mut self, l: &str) -> Self {
        self.label = l.to_string();
        self
    }
}

/// (profile, depth) per property and tier.
fn plan(property: &str, tier: &str) -> Vec<(&'static str, usize)> {
    let quick = tier == "quick";
    match property {
        "C01" => {
            if quick {
                vec![
                    ("full", 3),
                    ("prefilled4c", 8),
                    ("names", 4),
                    ("edit", 4),
                    ("alloc", 5),
                    ("holes4w", 5),
                    ("prefilled4", 4),
                ]
            } else {
                vec![
                    ("alloc", 8),
                    ("prefilled4", 7),
                    ("holes4", 14),
                    ("holes4w", 9),
                    ("alloc_small", 7),
                    ("edit", 6),
                    ("names", 6),
                    ("full", 4),
                    ("full3", 3),
                ]
            }
        }
        "C02" => {
            if quick {
                vec![
                    ("holes4", 9),
                    ("holes4w", 6),
                    ("prefilled4c", 8),
                    ("prefilled4", 4),
                    ("alloc", 5),
                    ("alloc_minlen_page", 5),
                    ("alloc_minlen_big", 5),
                    ("alloc_minregions1", 4),
                    ("alloc_minregions5", 5),
                    ("names", 4),
                    ("full", 3),
                ]
            } else {
                vec![
                    ("holes4", 14),
                    ("holes4w", 9),
                    ("alloc", 8),
                    ("alloc_small", 6),
                    ("alloc_minlen_page", 7),
                    ("alloc_minlen_big", 7),
                    ("alloc_minregions1", 6),
                    ("alloc_minregions5", 7),
                    ("names", 6),
                    ("edit", 5),
                    ("full", 3),
                ]
            }
        }
        // reader clause of C10 on one thread
        "C10" => {
            if quick {
                vec![("reader", 6)]
            } else {
                vec![("reader", 8)]
            }
        }
        // sequential part of C12
        "C12" => {
            if quick {
                vec![("compact", 5), ("alloc", 5), ("prefilled4c", 8), ("prefilled4cw", 4)]
            } else {
                vec![("compact", 7), ("alloc", 7), ("full", 3), ("prefilled4c", 10), ("prefilled4cw", 6)]
            }
        }
        // refused requests in every reachable state
        "C13" => {
            if quick {
                vec![("full", 3), ("names", 5), ("edit", 4)]
            } else {
                vec![("names", 6), ("edit", 5), ("full", 3), ("full3", 3)]
            }
        }
        _ => vec![],
    }
}

/// Runs the rawx explorations planned for `property` into `run`. `wall` is the budget in
/// seconds for all of them together (a cap that is hit is reported, never hidden).
pub fn add(run: &mut Run, kf: &KnownFindings, property: &str, tier: &str, wall: u64) {
    let classify = kf.classifier(property);
    // thorough = everything the quick tier explores (first), plus the deeper plan
    let mut plan = if tier == "quick" { plan(property, tier) } else { merge_plans(plan(property, "quick"), plan(property, tier)) };
    // VERIF_PLAN="alloc:7,edit:5" overrides the plan (calibration / debugging only).
    let leaked: &'static str =
        Box::leak(std::env::var("VERIF_PLAN").unwrap_or_default().into_boxed_str());
    if !leaked.is_empty() {
        plan = leaked
            .split(',')
            .map(|p| {
                let (a, b) = p.split_once(':').expect("profile:depth");
                (a, b.parse().expect("depth"))
            })
            .collect();
    }
    // cheap explorations first: what they leave of their share goes to the deep ones
    plan.sort_by_key(|(p, _)| p.starts_with("holes4") || p.starts_with("prefilled"));
    let t0 = std::time::Instant::now();
    let n = plan.len();
    for (i, (pname, depth)) in plan.into_iter().enumerate() {
        // remaining budget is shared evenly among the remaining explorations
        let left = wall.saturating_sub(t0.elapsed().as_secs()).max(1);
        let per = Duration::from_secs(left / (n - i) as u64 + 1);
        let cfg = profile(pname);
        let mut rep = seqx::explore::<RawSys>(
            &cfg,
            "rawx",
            pname,
            &Limits {
                max_depth: depth,
                wall: per,
                max_states: 20_000_000,
            },
            &classify,
        );
        eprintln!(
            "  [rawx {pname} depth {}/{depth}] states={} transitions={} found={} cap={:?}",
            rep.depth_completed,
            rep.states,
            rep.transitions,
            rep.found.len(),
            rep.cap_hit
        );
        for f in rep.found.iter_mut() {
            f.shown.insert(0, format!("engine=rawx profile={pname}"));
        }
        let first = run.found.len();
        absorb(run, &format!("rawx/{pname}"), &rep);
        for (_, payload) in run.found[first..].iter_mut() {
            *payload = json!({"engine": "rawx", "profile": pname});
        }
    }
    run.assumptions.extend([
        "rawx: single process, single thread; scratch databases on tmpfs (/dev/shm)".to_string(),
        "rawx: data bytes drawn from a position/name/generation pattern, never zero".to_string(),
        "rawx: bounds = names, sizes, offsets and depth as listed per exploration".to_string(),
    ]);
}

pub const RULE: &str = "breadth-first over all operation histories of each profile's alphabet up to the stated depth, executed on the real code; a state is distinct by the canonical dump of the complete implementation state (allocator, metadata slots, dirty flags, region contents / vector overlays); non-trivial = reached by at least one operation";

pub fn worker(spec: &str) {
    let cfg = profile(spec);
    seqx::worker_loop::<RawSys>(&cfg, &format!("rawx-w-{spec}"));
}

pub fn crash_worker(spec: &str) {
    let cfg = profile(spec);
    seqx::worker_loop::<crate::crashx::CrashSys>(&cfg, &format!("crashx-w-{spec}"));
}

/// Quick entries first; an entry that the deeper plan repeats at the same or a greater depth
/// is dropped from the front.
pub fn merge_plans(quick: Vec<(&'static str, usize)>, deep: Vec<(&'static str, usize)>) -> Vec<(&'static str, usize)> {
    let mut out: Vec<(&'static str, usize)> = quick.into_iter().filter(|(p, d)| !deep.iter().any(|(q, e)| q == p && e >= d)).collect();
    out.extend(deep);
    out
}

/// (profile, depth) of the crash-image exploration per property and tier.
fn crash_plan(property: &str, tier: &str) -> Vec<(&'static str, usize)> {
    let quick = tier == "quick";
    match property {
        "C05" => {
            if quick {
                vec![("crash2", 3), ("crash_fresh", 4), ("crash_inplace", 3)]
            } else {
                vec![("crash2", 5), ("crash3", 4), ("crash_fresh", 6), ("crash_edit", 4), ("crash_inplace", 5)]
            }
        }
        "C12" => {
            if quick {
                vec![("crash_compact", 3)]
            } else {
                vec![("crash_compact", 5), ("crash3", 4)]
            }
        }
        _ => vec![],
    }
}

pub fn add_crash(run: &mut Run, kf: &KnownFindings, property: &str, tier: &str, wall: u64) {
    let classify = kf.classifier(property);
    let plan = if tier == "quick" { crash_plan(property, tier) } else { merge_plans(crash_plan(property, "quick"), crash_plan(property, tier)) };
    let t0 = std::time::Instant::now();
    let n = plan.len();
    for (i, (pname, depth)) in plan.into_iter().enumerate() {
        let left = wall.saturating_sub(t0.elapsed().as_secs()).max(1);
        let per = Duration::from_secs(left / (n - i) as u64 + 1);
        let cfg = profile(pname);
        let mut rep = seqx::explore::<crate::crashx::CrashSys>(
            &cfg,
            "crashx",
            pname,
            &Limits {
                max_depth: depth,
                wall: per,
                max_states: 20_000_000,
            },
            &classify,
        );
        eprintln!(
            "  [crashx {pname} depth {}/{depth}] states={} transitions={} images={:?} found={} cap={:?}",
            rep.depth_completed,
            rep.states,
            rep.transitions,
            rep.counters.iter().filter(|(k, _)| k.starts_with("images")).collect::<Vec<_>>(),
            rep.found.len(),
            rep.cap_hit
        );
        for f in rep.found.iter_mut() {
            f.shown.insert(0, format!("engine=crashx profile={pname}"));
        }
        let first = run.found.len();
        absorb(run, &format!("crashx/{pname}"), &rep);
        for (_, payload) in run.found[first..].iter_mut() {
            *payload = json!({"engine": "crashx", "profile": pname});
        }
    }
    run.assumptions.extend([
        "crashx: 4 KiB page writes are atomic; file-length changes are durable immediately and in order; a punch is a zero-page write".to_string(),
        "crashx: data pages are varied one at a time around the all-old and all-new images (independence reduction, DESIGN 3.3), only pages inside the contents of a decodable slot; the regions file is enumerated as a full product (<= 6 dirty slots)".to_string(),
        "crashx: tap completeness is checked after every step (modelled page cache == real files)".to_string(),
    ]);
}

pub fn replay(doc: &serde_json::Value) -> i32 {
    replay_with::<RawSys>(doc)
}

pub fn replay_crash(doc: &serde_json::Value) -> i32 {
    replay_with::<crate::crashx::CrashSys>(doc)
}

fn replay_with<S: seqx::Sys<Cfg = RawCfg>>(doc: &serde_json::Value) -> i32 {
    let pname = doc["replay"]["profile"].as_str().unwrap_or("full");
    let pname: &str = Box::leak(pname.to_string().into_boxed_str());
    let cfg = profile(pname);
    let path: Vec<u16> = doc["path"]
        .as_array()
        .map(|a| a.iter().map(|v| v.as_u64().unwrap() as u16).collect())
        .unwrap_or_default();
    let property = doc["property"].as_str().unwrap_or("");
    let mut outcomes = Vec::new();
    let root = Scratch::new("replay");
    for round in 0..2 {
        let d = root.sub(&format!("r{round}"));
        crate::crashx::reset_image_cache();
        let (hist, last) = path.split_at(path.len() - 1);
        let mut sys: S = seqx::rebuild(&cfg, &d, hist);
        let ops = sys.ops(&cfg);
        let op = &ops[last[0] as usize];
        let step = sys.apply(&cfg, op, true);
        let sigs: Vec<String> = step
            .violations
            .iter()
            .filter(|v| v.property.split(',').any(|p| p == property))
            .map(|v| format!("{} :: {}", v.signature, v.detail))
            .collect();
        outcomes.push(sigs);
    }
    crate::finish_replay(doc, property, outcomes)
}
