//! Known-findings file, evidence files, replay artefacts and exit codes.

use std::{
    collections::BTreeMap,
    fs,
    path::{Path, PathBuf},
    time::Instant,
};

use serde_json::{Value, json};

use crate::seqx::{Disposition, Found, Violation, hash64};

pub fn verif_root() -> PathBuf {
    if let Ok(p) = std::env::var("VERIF_ROOT") {
        return PathBuf::from(p);
    }
    // harness/mc -> /verif
    let mut p = PathBuf::from(env!("CARGO_MANIFEST_DIR"));
    p.pop();
    p.pop();
    p
}

#[derive(Debug, Clone)]
pub struct KnownEntry {
    pub property: String,
    pub signature: String,
    pub status: String,
    pub what_fails: String,
}

pub struct KnownFindings {
    entries: Vec<KnownEntry>,
}

impl KnownFindings {
    pub fn load() -> Self {
        let p = verif_root().join("known_findings.json");
        let mut entries = Vec::new();
        // replays re-run an enumeration and want to see every signature
        if std::env::var_os("VERIF_IGNORE_KNOWN").is_some() {
            return Self { entries };
        }
        if let Ok(s) = fs::read_to_string(&p) {
            let v: Value = serde_json::from_str(&s).expect("known_findings.json must parse");
            for e in v["findings"].as_array().cloned().unwrap_or_default() {
                entries.push(KnownEntry {
                    property: e["property"].as_str().unwrap_or("").to_string(),
                    signature: e["signature"].as_str().unwrap_or("").to_string(),
                    status: e["status"].as_str().unwrap_or("").to_string(),
                    what_fails: e["what_fails"].as_str().unwrap_or("").to_string(),
                });
            }
        }
        Self { entries }
    }

    /// Only entries with status "known" suppress; "fixed" entries suppress nothing.
    pub fn lookup(&self, property: &str, signature: &str) -> Option<&KnownEntry> {
        self.entries.iter().find(|e| {
            e.status == "known"
                && property.split(',').any(|p| p == e.property)
                && sig_matches(&e.signature, signature)
        })
    }

    pub fn classifier<'a>(
        &'a self,
        property: &'a str,
    ) -> impl Fn(&Violation) -> Disposition + Sync + 'a {
        move |v: &Violation| {
            let known = self.lookup(&v.property, &v.signature).is_some();
            if v.property == "MACHINERY" {
                return Disposition::Report;
            }
            let mine = v.property.split(',').any(|p| p == property);
            match (mine, known) {
                (true, true) => Disposition::Known,
                (true, false) => Disposition::Report,
                (false, true) => Disposition::KnownForeign,
                (false, false) => Disposition::Ignore,
            }
        }
    }
}

pub struct Run {
    pub property: String,
    pub tier: String,
    pub seed: i64,
    pub engine: String,
    t0: Instant,
    pub coverage: BTreeMap<String, Value>,
    pub assumptions: Vec<String>,
    /// (found, replay payload)
    pub found: Vec<(Found, Value)>,
    pub machinery_errors: Vec<String>,
}

impl Run {
    pub fn new(property: &str, tier: &str, engine: &str) -> Self {
        let seed = std::env::var("VERIF_SEED")
            .ok()
            .and_then(|s| s.parse().ok())
            .unwrap_or(0);
        Self {
            property: property.to_string(),
            tier: tier.to_string(),
            seed,
            engine: engine.to_string(),
            t0: Instant::now(),
            coverage: BTreeMap::new(),
            assumptions: Vec::new(),
            found: Vec::new(),
            machinery_errors: Vec::new(),
        }
    }

    pub fn cov(&mut self, k: &str, v: Value) {
        self.coverage.insert(k.to_string(), v);
    }

    pub fn cov_add(&mut self, k: &str, n: u64) {
        let cur = self.coverage.get(k).and_then(|v| v.as_u64()).unwrap_or(0);
        self.coverage.insert(k.to_string(), json!(cur + n));
    }

    pub fn push_sample(&mut self, v: Value) {
        let e = self
            .coverage
            .entry("samples".to_string())
            .or_insert_with(|| json!([]));
        if let Some(a) = e.as_array_mut() {
            if a.len() < 12 {
                a.push(v);
            }
        }
    }

    pub fn add_found(&mut self, f: Found, replay: Value) {
        self.found.push((f, replay));
    }

    /// Writes evidence + replay files, prints the verdict lines, returns the exit code.
    pub fn finish(mut self) -> i32 {
        let root = verif_root();
        let wall = self.t0.elapsed().as_secs_f64();

        // Group by signature.
        let mut known: BTreeMap<String, (usize, String)> = BTreeMap::new();
        let mut new: BTreeMap<String, (usize, Found, Value)> = BTreeMap::new();
        for (f, payload) in std::mem::take(&mut self.found) {
            if f.violation.property == "MACHINERY" {
                self.machinery_errors
                    .push(format!("{} @ {:?}", f.violation.detail, f.shown));
                continue;
            }
            if f.known {
                let e = known
                    .entry(f.violation.signature.clone())
                    .or_insert((0, f.violation.detail.clone()));
                e.0 += 1;
            } else {
                let e = new
                    .entry(f.violation.signature.clone())
                    .or_insert((0, f.clone(), payload));
                e.0 += 1;
            }
        }

        // one line per listed finding (an entry may cover several concrete signatures)
        let kf = KnownFindings::load();
        let mut per_entry: BTreeMap<String, (usize, Vec<String>)> = BTreeMap::new();
        for (sig, (n, _)) in &known {
            let what = kf
                .lookup(&self.property, sig)
                .map(|e| format!("{} [listed as {}]", e.what_fails, e.signature))
                .unwrap_or_default();
            let e = per_entry.entry(what).or_default();
            e.0 += n;
            e.1.push(sig.clone());
        }
        for (what, (n, sigs)) in &per_entry {
            println!(
                "KNOWN-FINDING: property={} {} ({} cases, {} concrete signatures)",
                self.property,
                what,
                n,
                sigs.len()
            );
        }

        let mut exit = 0;
        let rdir = root.join("replays").join(&self.property);
        for (sig, (n, f, payload)) in &new {
            let _ = fs::create_dir_all(&rdir);
            let name = format!("{:016x}.json", hash64(&(sig, &f.path)));
            let path = rdir.join(name);
            let doc = json!({
                "property": self.property,
                "engine": self.engine,
                "tier": self.tier,
                "signature": sig,
                "cases_with_this_signature": n,
                "detail": f.violation.detail,
                "history": f.shown,
                "path": f.path,
                "replay": payload,
            });
            let _ = fs::write(&path, serde_json::to_string_pretty(&doc).unwrap());
            println!("  signature: {sig}");
            println!("  detail:    {}", f.violation.detail);
            println!("  history:   {:?}", f.shown);
            println!(
                "VIOLATION property={} replay={}",
                self.property,
                path.display()
            );
            exit = 1;
        }

        if !self.machinery_errors.is_empty() {
            for m in self.machinery_errors.iter().take(5) {
                eprintln!("MACHINERY-ERROR: {m}");
            }
            if exit == 0 {
                exit = 3;
            }
        }

        self.cov(
            "known_finding_signatures",
            json!(known.keys().collect::<Vec<_>>()),
        );
        self.cov(
            "new_violation_signatures",
            json!(new.keys().collect::<Vec<_>>()),
        );
        if !self.coverage.contains_key("samples") {
            self.cov("samples", json!(["<none>"]));
        }
        let ev = json!({
            "property_id": self.property,
            "tier": self.tier,
            "seed": self.seed,
            "level": "model_checking",
            "engine": self.engine,
            "coverage": self.coverage,
            "assumptions": self.assumptions,
            "wall_s": wall,
            "violations": new.len(),
            "known_findings_hit": known.len(),
            "machinery_errors": self.machinery_errors.len(),
        });
        let edir = root.join("evidence");
        let _ = fs::create_dir_all(&edir);
        if std::env::var_os("VERIF_NO_EVIDENCE").is_none() {
        write_atomic(
            &edir.join(format!("{}.json", self.property)),
            &serde_json::to_string_pretty(&ev).unwrap(),
        );
        }
        println!(
            "{} {} [{}]: states={} transitions={} violations={} known={} wall={:.1}s exit={}",
            self.property,
            self.tier,
            self.engine,
            ev["coverage"]["states"],
            ev["coverage"]["transitions"],
            new.len(),
            known.len(),
            wall,
            exit
        );
        exit
    }
}

/// Known-finding signatures: `*` matches a whole `|`-separated field, `~a;b` matches a flag-set
/// field containing flags a and b, `abc*` matches a prefix.
pub fn sig_matches(pattern: &str, sig: &str) -> bool {
    let a: Vec<&str> = pattern.split('|').collect();
    let b: Vec<&str> = sig.split('|').collect();
    a.len() == b.len()
        && a.iter().zip(b.iter()).all(|(p, s)| {
            if *p == "*" || p == s {
                true
            } else if let Some(flags) = p.strip_prefix('~') {
                // "~f1;f2": the field (a ';'-separated flag set) contains all listed flags
                let have: Vec<&str> = s.split(';').collect();
                flags.split(';').filter(|f| !f.is_empty()).all(|f| have.contains(&f))
            } else if let Some(prefix) = p.strip_suffix('*') {
                s.starts_with(prefix)
            } else {
                false
            }
        })
}

fn write_atomic(path: &Path, content: &str) {
    let tmp = path.with_extension("json.tmp");
    fs::write(&tmp, content).expect("write evidence");
    fs::rename(&tmp, path).expect("rename evidence");
}

/// Merges a seqx report into the run's coverage (summing over several explorations).
pub fn absorb(run: &mut Run, label: &str, rep: &crate::seqx::Report) {
    run.cov_add("states", rep.states);
    run.cov_add("transitions", rep.transitions);
    run.cov_add("traces_validated_against_impl", rep.executions);
    run.cov_add("evaluations", rep.transitions);
    run.cov_add("distinct_nontrivial", rep.states.saturating_sub(1));
    run.cov_add("dedup_hits", rep.dedup_hits);
    run.cov_add("distinct_observations", rep.distinct_obs);
    run.cov_add("states_cut_behind_violations", rep.cut_states);
    run.cov_add("states_cut_behind_other_properties_known_findings", rep.cut_foreign_known);
    let mut e = run
        .coverage
        .remove("explorations")
        .unwrap_or_else(|| json!([]));
    e.as_array_mut().unwrap().push(json!({
        "label": label,
        "states": rep.states,
        "transitions": rep.transitions,
        "depth_completed": rep.depth_completed,
        "per_depth(depth,states_total,transitions)": rep.per_depth,
        "cap_hit": rep.cap_hit,
        "regime_counters": rep.counters,
    }));
    run.cov("explorations", e);
    if rep.cap_hit.is_some() {
        run.cov("exhaustive", json!(false));
    } else if !run.coverage.contains_key("exhaustive") {
        run.cov("exhaustive", json!(true));
    }
    for s in &rep.samples {
        run.push_sample(json!({"exploration": label, "history": s}));
    }
    for f in &rep.found {
        run.add_found(f.clone(), json!({"exploration": label}));
    }
}
