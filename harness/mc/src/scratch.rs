//! Scratch directories under /dev/shm (tmpfs supports hole punching), removed on drop.

use std::{
    fs,
    path::{Path, PathBuf},
    sync::atomic::{AtomicUsize, Ordering},
};

static COUNTER: AtomicUsize = AtomicUsize::new(0);

pub struct Scratch {
    root: PathBuf,
}

impl Scratch {
    pub fn new(tag: &str) -> Self {
        let base = if let Ok(p) = std::env::var("VERIF_SCRATCH") {
            PathBuf::from(p)
        } else if Path::new("/dev/shm").is_dir() {
            PathBuf::from("/dev/shm")
        } else {
            std::env::temp_dir()
        };
        let root = base.join(format!(
            "anydb-verif-{}-{}-{}",
            std::process::id(),
            tag,
            COUNTER.fetch_add(1, Ordering::Relaxed)
        ));
        let _ = fs::remove_dir_all(&root);
        fs::create_dir_all(&root).expect("create scratch root");
        Self { root }
    }

    pub fn path(&self) -> &Path {
        &self.root
    }

    pub fn sub(&self, name: &str) -> PathBuf {
        let p = self.root.join(name);
        let _ = fs::remove_dir_all(&p);
        fs::create_dir_all(&p).expect("create scratch sub");
        p
    }

    pub fn worker(&self) -> WorkerDir {
        WorkerDir {
            dir: self
                .root
                .join(format!("w{}", COUNTER.fetch_add(1, Ordering::Relaxed))),
        }
    }
}

impl Drop for Scratch {
    fn drop(&mut self) {
        let _ = fs::remove_dir_all(&self.root);
    }
}

pub struct WorkerDir {
    dir: PathBuf,
}

impl WorkerDir {
    /// An empty directory (the previous contents are removed).
    pub fn fresh(&self) -> PathBuf {
        let _ = fs::remove_dir_all(&self.dir);
        fs::create_dir_all(&self.dir).expect("create worker dir");
        self.dir.clone()
    }
}

impl Drop for WorkerDir {
    fn drop(&mut self) {
        let _ = fs::remove_dir_all(&self.dir);
    }
}

/// Removes scratch roots left behind by processes that no longer exist.
pub fn sweep_stale() {
    let Ok(rd) = fs::read_dir("/dev/shm") else {
        return;
    };
    for e in rd.flatten() {
        let name = e.file_name().to_string_lossy().to_string();
        if let Some(rest) = name.strip_prefix("anydb-verif-") {
            if let Some(pid) = rest.split('-').next().and_then(|p| p.parse::<u32>().ok()) {
                if !Path::new(&format!("/proc/{pid}")).exists() {
                    let _ = fs::remove_dir_all(e.path());
                }
            }
        }
    }
}
