//! Explicit-state breadth-first exploration of operation histories on the real code.
//!
//! A state is identified by a canonical key computed from the *complete* implementation
//! state (see DESIGN §3.2). Live objects cannot be cloned, so a state is represented by
//! one history that reaches it and is rebuilt by re-executing that history.

use std::{
    collections::{BTreeMap, HashSet},
    fmt::Debug,
    hash::{Hash, Hasher},
    panic::{AssertUnwindSafe, catch_unwind},
    path::Path,
    sync::atomic::{AtomicBool, AtomicU64, Ordering},
    time::{Duration, Instant},
};

use parking_lot::Mutex;

use crate::scratch::Scratch;

/// 128-bit state key.
pub type Key = u128;

/// Deterministic 128-bit hash of a byte string.
pub fn hash128(bytes: &[u8]) -> u128 {
    let mut h1 = std::collections::hash_map::DefaultHasher::new();
    h1.write_u8(0x17);
    h1.write(bytes);
    let mut h2 = std::collections::hash_map::DefaultHasher::new();
    h2.write_u8(0xA9);
    h2.write(bytes);
    h2.write_usize(bytes.len());
    ((h1.finish() as u128) << 64) | h2.finish() as u128
}

pub fn hash64<T: Hash>(t: &T) -> u64 {
    let mut h = std::collections::hash_map::DefaultHasher::new();
    t.hash(&mut h);
    h.finish()
}

/// A property violation found at one step.
#[derive(Debug, Clone)]
pub struct Violation {
    /// Property the oracle that fired belongs to.
    pub property: String,
    /// Signature: (op kind, situation class, divergence kind) — see DESIGN §3.7.
    pub signature: String,
    /// Human-readable expected-vs-observed.
    pub detail: String,
}

pub struct Step {
    /// Hash of what the step observed (for the distinct-outcome count).
    pub obs: u64,
    pub violations: Vec<Violation>,
}

/// A system under exploration: the real objects plus their reference model.
pub trait Sys: Sized {
    type Op: Clone + Debug + Send + Sync;
    type Cfg: Sync;

    /// Builds the initial state in a fresh scratch directory.
    fn init(cfg: &Self::Cfg, dir: &Path) -> Self;
    /// Operations enabled in the current state (a function of the state only).
    fn ops(&self, cfg: &Self::Cfg) -> Vec<Self::Op>;
    /// Applies `op` to implementation and model. With `check` the oracles run.
    fn apply(&mut self, cfg: &Self::Cfg, op: &Self::Op, check: bool) -> Step;
    /// Canonical key of the complete implementation state (+ model-only state that
    /// influences later inputs).
    fn key(&self) -> Key;
    /// Regime coverage counters accumulated by `apply(check = true)`.
    fn take_counters(&mut self) -> Vec<(&'static str, u64)> {
        Vec::new()
    }
    /// Render an op for replay files / samples.
    fn show(op: &Self::Op) -> String {
        format!("{op:?}")
    }
    /// (property, signature) to report when executing `op` kills the process (abort,
    /// SIGSEGV, SIGBUS, allocation failure).
    fn abort_verdict(_cfg: &Self::Cfg, _op: &Self::Op) -> (String, String) {
        ("MACHINERY".into(), "worker_died".into())
    }
    /// Per-operation watchdog (milliseconds): a worker that spends longer inside one
    /// rebuild + apply aborts itself, which the parent reports through `abort_verdict`.
    fn op_timeout_ms(_cfg: &Self::Cfg) -> u64 {
        10_000
    }
}

/// A history is the list of indices into `ops()` taken at each step (ops() is a
/// deterministic function of the state, so this identifies the history exactly).
pub type Path_ = Vec<u16>;

#[derive(Debug, Clone)]
pub struct Found {
    pub path: Path_,
    /// Rendered operations (same length as `path`); the last one is the violating step.
    pub shown: Vec<String>,
    pub violation: Violation,
    pub known: bool,
}

#[derive(Debug, Clone, Copy, PartialEq, Eq)]
pub enum Disposition {
    /// Violation of the property under check, not listed: report, cut.
    Report,
    /// Listed known finding of the property under check: cut, print KNOWN-FINDING.
    Known,
    /// Listed known finding of another property: cut silently (counted).
    KnownForeign,
    /// Unlisted violation of another property: keep exploring (its consequences for the
    /// property under check, if any, will surface under that property's own oracle).
    Ignore,
}

pub struct Limits {
    pub max_depth: usize,
    pub wall: Duration,
    pub max_states: usize,
}

pub struct Report {
    pub states: u64,
    pub transitions: u64,
    pub dedup_hits: u64,
    pub executions: u64,
    pub distinct_obs: u64,
    pub depth_completed: usize,
    pub per_depth: Vec<(usize, u64, u64)>,
    pub cap_hit: Option<String>,
    pub found: Vec<Found>,
    pub cut_foreign_known: u64,
    pub cut_states: u64,
    pub counters: BTreeMap<&'static str, u64>,
    pub samples: Vec<Vec<String>>,
    pub panics_in_harness: u64,
}

pub fn workers() -> usize {
    std::env::var("VERIF_WORKERS")
        .ok()
        .and_then(|s| s.parse().ok())
        // Page-table-modifying work (mmap, munmap, first-touch faults) does not scale
        // across cores in this sandbox (measured: 16 parallel map/touch/unmap loops run
        // 30x slower each), and every execution re-opens a database, so more than two
        // workers only add contention.
        .unwrap_or(2)
}

const SHARDS: usize = 64;

struct Seen {
    shards: Vec<Mutex<HashSet<Key>>>,
}
impl Seen {
    fn new() -> Self {
        Self {
            shards: (0..SHARDS).map(|_| Mutex::new(HashSet::new())).collect(),
        }
    }
    fn insert(&self, k: Key) -> bool {
        self.shards[(k as usize) % SHARDS].lock().insert(k)
    }
    fn len(&self) -> usize {
        self.shards.iter().map(|s| s.lock().len()).sum()
    }
}

/// Rebuilds the state reached by `hist`. Returns None if a replayed step panicked
/// (cannot happen for histories that were accepted into the frontier).
pub fn rebuild<S: Sys>(cfg: &S::Cfg, dir: &Path, hist: &[u16]) -> S {
    let mut sys = S::init(cfg, dir);
    for &i in hist {
        let ops = sys.ops(cfg);
        let op = ops
            .get(i as usize)
            .unwrap_or_else(|| panic!("replay divergence: op index {i} of {} not enabled", ops.len()));
        sys.apply(cfg, op, false);
    }
    sys
}

/// Renders a history (for replay files and samples).
pub fn render<S: Sys>(cfg: &S::Cfg, dir: &Path, hist: &[u16]) -> Vec<String> {
    let mut sys = S::init(cfg, dir);
    let mut out = Vec::new();
    for &i in hist {
        let ops = sys.ops(cfg);
        let Some(op) = ops.get(i as usize) else {
            out.push(format!("<index {i} not enabled>"));
            break;
        };
        out.push(S::show(op));
        if guarded(|| sys.apply(cfg, op, false)).is_err() {
            out.push("<panicked>".into());
            break;
        }
    }
    out
}

/// Serves exploration tasks on stdin/stdout (one JSON line each way per history).
/// Runs in a child process: the real code maps and unmaps files constantly, and threads
/// of one process serialise on the address-space lock, so workers are processes.
pub fn worker_loop<S: Sys>(cfg: &S::Cfg, tag: &str) {
    use std::io::{BufRead, Write};
    let root = Scratch::new(tag);
    let wdir = root.worker();
    // watchdog: an operation that never returns (the library looping forever) must not
    // hang the exploration
    static DEADLINE_MS: AtomicU64 = AtomicU64::new(0);
    let t_start = Instant::now();
    std::thread::spawn(move || {
        loop {
            std::thread::sleep(Duration::from_millis(50));
            let d = DEADLINE_MS.load(Ordering::Relaxed);
            if d != 0 && t_start.elapsed().as_millis() as u64 > d {
                eprintln!("worker watchdog: operation exceeded its time limit, aborting");
                std::process::abort();
            }
        }
    });
    let arm = |on: bool| {
        let d = if on {
            t_start.elapsed().as_millis() as u64 + S::op_timeout_ms(cfg)
        } else {
            0
        };
        DEADLINE_MS.store(d, Ordering::Relaxed);
    };
    let stdin = std::io::stdin();
    let stdout = std::io::stdout();
    for line in stdin.lock().lines() {
        let Ok(line) = line else { break };
        // "<hist>" expands all ops; "N <hist>" lists them (without executing any);
        // "O<i> <hist>" executes only op i.
        let (mode, rest) = match line.split_once(' ') {
            Some((m, r)) => (m.to_string(), r.to_string()),
            None => (String::new(), line.clone()),
        };
        let hist: Vec<u16> = rest
            .split(',')
            .filter(|s| !s.is_empty())
            .map(|s| s.parse().expect("index"))
            .collect();
        let ops = {
            let d = wdir.fresh();
            let sys: S = rebuild(cfg, &d, &hist);
            sys.ops(cfg)
        };
        if mode == "N" {
            let list: Vec<serde_json::Value> = ops
                .iter()
                .map(|op| {
                    let (p, sg) = S::abort_verdict(cfg, op);
                    serde_json::json!([S::show(op), p, sg])
                })
                .collect();
            let mut out = stdout.lock();
            let _ = writeln!(out, "{}", serde_json::Value::Array(list));
            let _ = out.flush();
            continue;
        }
        let only: Option<usize> = mode.strip_prefix('O').and_then(|s| s.parse().ok());
        let mut results = Vec::new();
        for (oi, op) in ops.iter().enumerate() {
            if only.is_some_and(|o| o != oi) {
                continue;
            }
            let d = wdir.fresh();
            arm(true);
            let r = catch_unwind(AssertUnwindSafe(|| {
                let mut sys: S = rebuild(cfg, &d, &hist);
                let step = sys.apply(cfg, op, true);
                let key = sys.key();
                let ctr = sys.take_counters();
                (step, key, ctr)
            }));
            arm(false);
            match r {
                Err(p) => {
                    let msg = format!("{}: {}", last_panic_loc(), panic_msg(&p));
                    results.push(serde_json::json!({"panic": msg, "op": S::show(op)}));
                }
                Ok((step, key, ctr)) => {
                    let v: Vec<serde_json::Value> = step
                        .violations
                        .iter()
                        .map(|v| serde_json::json!([v.property, v.signature, v.detail]))
                        .collect();
                    let c: Vec<serde_json::Value> =
                        ctr.iter().map(|(k, n)| serde_json::json!([k, n])).collect();
                    results.push(serde_json::json!({
                        "key": format!("{key:032x}"),
                        "obs": step.obs,
                        "v": v,
                        "c": c,
                    }));
                }
            }
        }
        let mut out = stdout.lock();
        let _ = writeln!(out, "{}", serde_json::Value::Array(results));
        let _ = out.flush();
    }
}

struct Child {
    proc: std::process::Child,
    stdin: std::process::ChildStdin,
    stdout: std::io::BufReader<std::process::ChildStdout>,
}

fn spawn_child(engine: &str, spec: &str) -> Child {
    use std::process::{Command, Stdio};
    let exe = std::env::current_exe().expect("current_exe");
    let mut proc = Command::new(exe)
        .args(["worker", engine, spec])
        // the library's own rayon use (parallel punches) must not spin up 16 idle
        // threads per worker process
        .env("RAYON_NUM_THREADS", "1")
        .stdin(Stdio::piped())
        .stdout(Stdio::piped())
        .stderr(Stdio::inherit())
        .spawn()
        .expect("spawn worker");
    let stdin = proc.stdin.take().unwrap();
    let stdout = std::io::BufReader::new(proc.stdout.take().unwrap());
    Child {
        proc,
        stdin,
        stdout,
    }
}

impl Child {
    fn ask(&mut self, hist: &[u16]) -> Option<serde_json::Value> {
        self.ask_mode("", hist)
    }

    fn ask_mode(&mut self, mode: &str, hist: &[u16]) -> Option<serde_json::Value> {
        use std::io::{BufRead, Write};
        let line: Vec<String> = hist.iter().map(|i| i.to_string()).collect();
        if mode.is_empty() {
            writeln!(self.stdin, "{}", line.join(",")).ok()?;
        } else {
            writeln!(self.stdin, "{mode} {}", line.join(",")).ok()?;
        }
        self.stdin.flush().ok()?;
        let mut buf = String::new();
        let n = self.stdout.read_line(&mut buf).ok()?;
        if n == 0 {
            return None;
        }
        serde_json::from_str(&buf).ok()
    }
}

impl Drop for Child {
    fn drop(&mut self) {
        let _ = self.proc.kill();
        let _ = self.proc.wait();
    }
}

fn intern(s: &str) -> &'static str {
    static TABLE: Mutex<Option<std::collections::HashMap<String, &'static str>>> =
        Mutex::new(None);
    let mut g = TABLE.lock();
    let t = g.get_or_insert_with(Default::default);
    if let Some(v) = t.get(s) {
        return v;
    }
    let leaked: &'static str = Box::leak(s.to_string().into_boxed_str());
    t.insert(s.to_string(), leaked);
    leaked
}

/// Breadth-first exploration. The parent owns the frontier and the seen-set; worker
/// processes (`anydb-mc worker <engine> <spec>`) execute histories on the real code.
pub fn explore<S: Sys>(
    cfg: &S::Cfg,
    engine: &str,
    spec: &str,
    limits: &Limits,
    classify: &(dyn Fn(&Violation) -> Disposition + Sync),
) -> Report {
    let t0 = Instant::now();
    let seen = Seen::new();
    let obs_seen: Mutex<HashSet<u64>> = Mutex::new(HashSet::new());
    let transitions = AtomicU64::new(0);
    let dedup = AtomicU64::new(0);
    let execs = AtomicU64::new(0);
    let cut = AtomicU64::new(0);
    let harness_panics = AtomicU64::new(0);
    let found: Mutex<Vec<Found>> = Mutex::new(Vec::new());
    let cut_foreign = AtomicU64::new(0);
    let counters: Mutex<BTreeMap<&'static str, u64>> = Mutex::new(BTreeMap::new());
    let samples: Mutex<Vec<Path_>> = Mutex::new(Vec::new());
    let stop = AtomicBool::new(false);

    let root = Scratch::new(&format!("{engine}-{}", spec.replace('/', "_")));
    {
        let d = root.sub("init");
        let s = S::init(cfg, &d);
        seen.insert(s.key());
    }

    let mut frontier: Vec<Path_> = vec![vec![]];
    let mut per_depth = Vec::new();
    let mut depth_completed = 0;
    let mut cap_hit = None;
    let n_workers = workers();
    let children: Vec<Mutex<Child>> = (0..n_workers)
        .map(|_| Mutex::new(spawn_child(engine, spec)))
        .collect();

    for depth in 1..=limits.max_depth {
        if frontier.is_empty() {
            depth_completed = limits.max_depth;
            break;
        }
        let next: Mutex<Vec<Path_>> = Mutex::new(Vec::new());
        let t_before = transitions.load(Ordering::Relaxed);
        let cursor = std::sync::atomic::AtomicUsize::new(0);

        let process = |child: &Mutex<Child>, hist: &Path_| {
            if stop.load(Ordering::Relaxed) {
                return;
            }
            if t0.elapsed() > limits.wall {
                stop.store(true, Ordering::Relaxed);
                return;
            }
            let reply = child.lock().ask(hist);
            let results = match reply {
                Some(serde_json::Value::Array(r)) => r,
                _ => {
                    // The worker died (abort, SIGBUS, SIGSEGV, allocation failure). Find
                    // the operation that kills it by executing each one in its own request.
                    let mut c = child.lock();
                    *c = spawn_child(engine, spec);
                    let Some(serde_json::Value::Array(list)) = c.ask_mode("N", hist) else {
                        harness_panics.fetch_add(1, Ordering::Relaxed);
                        found.lock().push(Found {
                            path: hist.clone(),
                            shown: vec![],
                            violation: Violation {
                                property: "MACHINERY".into(),
                                signature: "worker_died_replaying".into(),
                                detail: "worker process dies while replaying this history".into(),
                            },
                            known: false,
                        });
                        *c = spawn_child(engine, spec);
                        return;
                    };
                    let mut results = Vec::new();
                    for (oi, info) in list.iter().enumerate() {
                        match c.ask_mode(&format!("O{oi}"), hist) {
                            Some(serde_json::Value::Array(mut r)) if r.len() == 1 => {
                                results.push(r.remove(0))
                            }
                            _ => {
                                *c = spawn_child(engine, spec);
                                results.push(serde_json::json!({
                                    "key": "0", "obs": 0, "c": [],
                                    "v": [[info[1], info[2], format!("process died (abort / signal / allocation failure) executing {}", info[0])]],
                                }));
                            }
                        }
                    }
                    results
                }
            };
            execs.fetch_add(1 + results.len() as u64, Ordering::Relaxed);
            let mut local_next = Vec::new();
            for (oi, r) in results.iter().enumerate() {
                transitions.fetch_add(1, Ordering::Relaxed);
                let mut path = hist.clone();
                path.push(oi as u16);
                if let Some(p) = r.get("panic") {
                    harness_panics.fetch_add(1, Ordering::Relaxed);
                    let msg = p.as_str().unwrap_or("").to_string();
                    found.lock().push(Found {
                        path,
                        shown: vec![],
                        violation: Violation {
                            property: "MACHINERY".into(),
                            signature: format!("harness_panic:{msg}"),
                            detail: msg,
                        },
                        known: false,
                    });
                    continue;
                }
                let key = u128::from_str_radix(r["key"].as_str().unwrap_or("0"), 16).unwrap_or(0);
                {
                    let mut c = counters.lock();
                    for kv in r["c"].as_array().into_iter().flatten() {
                        *c.entry(intern(kv[0].as_str().unwrap_or("?"))).or_default() +=
                            kv[1].as_u64().unwrap_or(0);
                    }
                }
                obs_seen.lock().insert(r["obs"].as_u64().unwrap_or(0));
                let mut cut_here = false;
                for v in r["v"].as_array().into_iter().flatten() {
                    let v = Violation {
                        property: v[0].as_str().unwrap_or("").to_string(),
                        signature: v[1].as_str().unwrap_or("").to_string(),
                        detail: v[2].as_str().unwrap_or("").to_string(),
                    };
                    // A wrong answer of a read-only API leaves implementation and model in
                    // agreement about the state itself: report it, but keep expanding.
                    let cutting = !v.signature.contains("|read:");
                    match classify(&v) {
                        Disposition::Ignore => {}
                        Disposition::KnownForeign => {
                            cut_here |= cutting;
                            cut_foreign.fetch_add(1, Ordering::Relaxed);
                        }
                        d => {
                            cut_here |= cutting;
                            found.lock().push(Found {
                                path: path.clone(),
                                shown: vec![],
                                violation: v,
                                known: d == Disposition::Known,
                            });
                        }
                    }
                }
                if cut_here {
                    cut.fetch_add(1, Ordering::Relaxed);
                    continue; // do not expand behind a violation
                }
                if seen.insert(key) {
                    if path.len() >= 2 {
                        let mut s = samples.lock();
                        if s.len() < 6 && (key as u64) % 97 < 9 {
                            s.push(path.clone());
                        }
                    }
                    local_next.push(path);
                } else {
                    dedup.fetch_add(1, Ordering::Relaxed);
                }
            }
            next.lock().append(&mut local_next);
        };
        std::thread::scope(|sc| {
            for child in children.iter() {
                let process = &process;
                let cursor = &cursor;
                let frontier = &frontier;
                sc.spawn(move || {
                    loop {
                        let i = cursor.fetch_add(1, Ordering::Relaxed);
                        let Some(hist) = frontier.get(i) else { break };
                        process(child, hist);
                    }
                });
            }
        });

        let stopped = stop.load(Ordering::Relaxed);
        let n_states = seen.len();
        per_depth.push((
            depth,
            n_states as u64,
            transitions.load(Ordering::Relaxed) - t_before,
        ));
        if stopped {
            cap_hit = Some(format!(
                "wall cap {:?} hit while exploring depth {depth}; depth {} fully covered",
                limits.wall,
                depth - 1
            ));
            break;
        }
        depth_completed = depth;
        if n_states > limits.max_states {
            cap_hit = Some(format!(
                "state cap {} exceeded after depth {depth}",
                limits.max_states
            ));
            break;
        }
        frontier = next.into_inner();
        // Canonical order so that runs are reproducible regardless of worker timing.
        frontier.sort();
    }
    drop(children);

    let d = root.sub("render");
    let mut smp: Vec<Vec<String>> = samples
        .into_inner()
        .iter()
        .map(|p| render::<S>(cfg, &d, p))
        .collect();
    if smp.is_empty() {
        smp.push(vec!["<no history of length >= 2 reached a new state>".into()]);
    }
    let mut found = found.into_inner();
    found.sort_by(|a, b| {
        (a.path.len(), &a.path, &a.violation.signature).cmp(&(
            b.path.len(),
            &b.path,
            &b.violation.signature,
        ))
    });
    // render only the first case of each signature (rendering re-executes the history)
    let mut rendered: HashSet<String> = HashSet::new();
    for f in found.iter_mut() {
        if rendered.insert(f.violation.signature.clone()) {
            f.shown = render::<S>(cfg, &d, &f.path);
        }
    }
    Report {
        states: seen.len() as u64,
        transitions: transitions.load(Ordering::Relaxed),
        dedup_hits: dedup.load(Ordering::Relaxed),
        executions: execs.load(Ordering::Relaxed),
        distinct_obs: obs_seen.lock().len() as u64,
        depth_completed,
        per_depth,
        cap_hit,
        found,
        cut_foreign_known: cut_foreign.load(Ordering::Relaxed),
        cut_states: cut.load(Ordering::Relaxed),
        counters: counters.into_inner(),
        samples: smp,
        panics_in_harness: harness_panics.load(Ordering::Relaxed),
    }
}

pub fn panic_msg(p: &Box<dyn std::any::Any + Send>) -> String {
    if let Some(s) = p.downcast_ref::<&str>() {
        s.to_string()
    } else if let Some(s) = p.downcast_ref::<String>() {
        s.clone()
    } else {
        "<non-string panic>".into()
    }
}

thread_local! {
    static LAST_PANIC_LOC: std::cell::RefCell<Option<String>> = const { std::cell::RefCell::new(None) };
}

/// Installs a quiet panic hook that remembers `file:line` of the last panic per thread.
pub fn install_panic_hook() {
    std::panic::set_hook(Box::new(|info| {
        let loc = info
            .location()
            .map(|l| {
                let f = l.file();
                let f = f.rsplit("/crates/").next().unwrap_or(f);
                format!("{}:{}", f, l.line())
            })
            .unwrap_or_else(|| "?".into());
        LAST_PANIC_LOC.with(|c| *c.borrow_mut() = Some(loc));
    }));
}

pub fn last_panic_loc() -> String {
    LAST_PANIC_LOC
        .with(|c| c.borrow_mut().take())
        .unwrap_or_else(|| "?".into())
}

/// Runs `f`, converting a panic into `Err("file:line: message")`.
pub fn guarded<T>(f: impl FnOnce() -> T) -> Result<T, String> {
    match catch_unwind(AssertUnwindSafe(f)) {
        Ok(v) => Ok(v),
        Err(p) => Err(format!("{}: {}", last_panic_loc(), panic_msg(&p))),
    }
}
