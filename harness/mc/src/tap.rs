//! Dispatcher for the repository's `rawdb::verif` event tap.
//!
//! One global callback is installed once per process. It feeds
//!  * a thread-local event log (sequential engines: the events of a history all occur
//!    on the thread that runs it, except punches, which the library issues from pool
//!    threads), and
//!  * a log of punches keyed by file descriptor, and
//!  * an optional process-global controller hook (chessx).

use std::{
    cell::RefCell,
    collections::HashMap,
    sync::{Arc, Once},
};

use parking_lot::Mutex;
pub use rawdb::verif::{Event, FileKind, LockMode};

thread_local! {
    static LOG: RefCell<Option<Vec<Event>>> = const { RefCell::new(None) };
}

/// Durable-image events with the written bytes copied out (process-global: punches are
/// issued from pool threads; a crash exploration runs one history at a time per process).
#[derive(Debug, Clone)]
pub enum DurEv {
    Write { file: FileKind, off: usize, bytes: Vec<u8> },
    SetLen { file: FileKind, len: usize },
    SyncBegin { file: FileKind },
    SyncEnd { file: FileKind },
    Punch { off: usize, len: usize },
}
static DURABLE: Mutex<Option<Vec<DurEv>>> = Mutex::new(None);

pub fn start_durable() {
    ensure_installed();
    *DURABLE.lock() = Some(Vec::new());
}

pub fn take_durable() -> Vec<DurEv> {
    DURABLE.lock().take().unwrap_or_default()
}

fn record_durable(ev: &Event) {
    let mut g = DURABLE.lock();
    let Some(v) = g.as_mut() else { return };
    match ev {
        Event::MmapWrite { file, off, len, src } | Event::MmapWritten { file, off, len, src } => {
            let bytes = unsafe { std::slice::from_raw_parts(*src, *len) }.to_vec();
            v.push(DurEv::Write { file: *file, off: *off, bytes });
        }
        Event::SetLen { file, len } => v.push(DurEv::SetLen { file: *file, len: *len }),
        Event::SyncBegin { file } => v.push(DurEv::SyncBegin { file: *file }),
        Event::SyncEnd { file } => v.push(DurEv::SyncEnd { file: *file }),
        Event::Punch { off, len, .. } => v.push(DurEv::Punch { off: *off, len: *len }),
        _ => {}
    }
}

static PUNCHES: Mutex<Option<HashMap<i32, Vec<(usize, usize)>>>> = Mutex::new(None);
type Ctl = Arc<dyn Fn(&Event) + Send + Sync>;
static CONTROLLER: Mutex<Option<Ctl>> = Mutex::new(None);
static INIT: Once = Once::new();

pub fn ensure_installed() {
    INIT.call_once(|| {
        *PUNCHES.lock() = Some(HashMap::new());
        rawdb::verif::install(Arc::new(|ev: &Event| {
            if let Event::Punch { fd, off, len } = ev {
                if let Some(m) = PUNCHES.lock().as_mut() {
                    if let Some(v) = m.get_mut(fd) {
                        v.push((*off, *len));
                    }
                }
            }
            record_durable(ev);
            LOG.with(|l| {
                if let Some(v) = l.borrow_mut().as_mut() {
                    v.push(*ev);
                }
            });
            let ctl = CONTROLLER.lock().clone();
            if let Some(c) = ctl {
                c(ev);
            }
        }));
    });
}

pub fn set_controller(c: Option<Ctl>) {
    ensure_installed();
    *CONTROLLER.lock() = c;
}

/// Starts recording events of the current thread.
pub fn start_log() {
    ensure_installed();
    LOG.with(|l| *l.borrow_mut() = Some(Vec::new()));
}

pub fn take_log() -> Vec<Event> {
    LOG.with(|l| l.borrow_mut().take().unwrap_or_default())
}

/// Drains the events recorded so far on this thread but keeps recording.
pub fn drain_log() -> Vec<Event> {
    LOG.with(|l| {
        l.borrow_mut()
            .as_mut()
            .map(std::mem::take)
            .unwrap_or_default()
    })
}

pub fn watch_punches(fd: i32) {
    ensure_installed();
    PUNCHES.lock().as_mut().unwrap().insert(fd, Vec::new());
}

pub fn take_punches(fd: i32) -> Vec<(usize, usize)> {
    PUNCHES
        .lock()
        .as_mut()
        .unwrap()
        .remove(&fd)
        .unwrap_or_default()
}
