//! Dispatcher for the repository's `rawdb::verif` event tap.
//!
//! One global callback is installed once per process. It feeds
//!  * a thread-local event log (sequential engines: the events of a history all occur
//!    on the thread that runs it, except punches, which the library issues from pool
//!    threads), and
//!  * a log of punches keyed by file descriptor, and
//!  * an optional process-global controller hook (chessx).

use std::{
    cell::RefCell,
    collections::HashMap,
    sync::{Arc, Once},
};

use parking_lot::Mutex;
pub use rawdb::verif::{Event, FileKind, LockMode};

thread_local! {
    static LOG: RefCell<Option<Vec<Event>>> = const { RefCell::new(None) };
}

static PUNCHES: Mutex<Option<HashMap<i32, Vec<(usize, usize)>>>> = Mutex::new(None);
type Ctl = Arc<dyn Fn(&Event) + Send + Sync>;
static CONTROLLER: Mutex<Option<Ctl>> = Mutex::new(None);
static INIT: Once = Once::new();

pub fn ensure_installed() {
    INIT.call_once(|| {
        *PUNCHES.lock() = Some(HashMap::new());
        rawdb::verif::install(Arc::new(|ev: &Event| {
            if let Event::Punch { fd, off, len } = ev {
                if let Some(m) = PUNCHES.lock().as_mut() {
                    if let Some(v) = m.get_mut(fd) {
                        v.push((*off, *len));
                    }
                }
            }
            LOG.with(|l| {
                if let Some(v) = l.borrow_mut().as_mut() {
                    v.push(*ev);
                }
            });
            let ctl = CONTROLLER.lock().clone();
            if let Some(c) = ctl {
                c(ev);
            }
        }));
    });
}

pub fn set_controller(c: Option<Ctl>) {
    ensure_installed();
    *CONTROLLER.lock() = c;
}

/// Starts recording events of the current thread.
pub fn start_log() {
    ensure_installed();
    LOG.with(|l| *l.borrow_mut() = Some(Vec::new()));
}

pub fn take_log() -> Vec<Event> {
    LOG.with(|l| l.borrow_mut().take().unwrap_or_default())
}

/// Drains the events recorded so far on this thread but keeps recording.
pub fn drain_log() -> Vec<Event> {
    LOG.with(|l| {
        l.borrow_mut()
            .as_mut()
            .map(std::mem::take)
            .unwrap_or_default()
    })
}

pub fn watch_punches(fd: i32) {
    ensure_installed();
    PUNCHES.lock().as_mut().unwrap().insert(fd, Vec::new());
}

pub fn take_punches(fd: i32) -> Vec<(usize, usize)> {
    PUNCHES
        .lock()
        .as_mut()
        .unwrap()
        .remove(&fd)
        .unwrap_or_default()
}
