//! valuex — value-space sweep of the compressed formats (C07, "lossless"): every value class
//! of every element type, in several arrangements, through the real compression strategies
//! (compress -> decompress / decompress_into / decompress_append) and through real vectors
//! (push, flush, re-open, read). Small spaces (8- and 16-bit types) are enumerated completely;
//! the thorough tier enumerates the complete 32-bit float space (every bit pattern, twice: in
//! ascending order and in a stride permutation).

use std::{collections::BTreeMap, time::Instant};

use rawdb::Database;
use serde_json::json;
use vecdb::{
    AnyStoredVec, CompressionStrategy, ImportableVec, LZ4Strategy, LZ4Vec, PcoVec, PcodecStrategy, ReadableVec, ValueStrategy,
    Version, WritableVec, ZstdStrategy, ZstdVec,
};

use crate::{
    report::{KnownFindings, Run},
    scratch::Scratch,
    seqx::{Disposition, Found, Violation, guarded},
};

struct Acc<'a> {
    run: &'a mut Run,
    classify: &'a (dyn Fn(&Violation) -> Disposition + Sync),
    pages: u64,
    values: u64,
    per_group: BTreeMap<String, u64>,
    reported: std::collections::HashSet<String>,
}

impl Acc<'_> {
    fn viol(&mut self, group: &str, arrangement: &str, kind: &str, detail: String) {
        let signature = format!("valuex|{group}|{arrangement}|{kind}");
        if !self.reported.insert(signature.clone()) {
            return;
        }
        let v = Violation {
            property: "C07".into(),
            signature,
            detail: detail.clone(),
        };
        let d = (self.classify)(&v);
        if d == Disposition::Ignore {
            return;
        }
        self.run.add_found(
            Found {
                path: vec![],
                shown: vec![detail],
                violation: v,
                known: d == Disposition::Known,
            },
            json!({"engine": "valuex", "group": group}),
        );
    }
}

fn bytes_of<S: ValueStrategy<T>, T>(v: &T) -> Vec<u8> {
    let mut b = Vec::new();
    S::write_to_vec(v, &mut b);
    b
}

/// One page through the three decoding entry points; bit-exact comparison.
fn page<S: CompressionStrategy<T>, T: Clone>(acc: &mut Acc, group: &str, arrangement: &str, vals: &[T]) {
    acc.pages += 1;
    acc.values += vals.len() as u64;
    *acc.per_group.entry(group.to_string()).or_default() += 1;
    let r = guarded(|| -> Result<(), String> {
        let enc = S::compress(vals).map_err(|e| format!("compress: {e:?}"))?;
        let want: Vec<Vec<u8>> = vals.iter().map(|v| bytes_of::<S, T>(v)).collect();
        let same = |what: &str, got: &[T]| -> Result<(), String> {
            if got.len() != vals.len() {
                return Err(format!("{what}: {} values in, {} out", vals.len(), got.len()));
            }
            for (i, g) in got.iter().enumerate() {
                let gb = bytes_of::<S, T>(g);
                if gb != want[i] {
                    return Err(format!("{what}: value {i} of {} went in as bytes {:02x?} and came out as {:02x?}", vals.len(), want[i], gb));
                }
            }
            Ok(())
        };
        let a = S::decompress(&enc, vals.len()).map_err(|e| format!("decompress: {e:?}"))?;
        same("decompress", &a)?;
        let mut b: Vec<T> = vals[..vals.len().min(3)].to_vec();
        S::decompress_into(&enc, vals.len(), &mut b).map_err(|e| format!("decompress_into: {e:?}"))?;
        same("decompress_into", &b)?;
        let mut c: Vec<T> = vals[..1.min(vals.len())].to_vec();
        let keep = c.len();
        S::decompress_append(&enc, vals.len(), &mut c).map_err(|e| format!("decompress_append: {e:?}"))?;
        same("decompress_append", &c[keep..])?;
        // the raw (uncompressed last page) encoding as well
        let mut raw = Vec::new();
        for v in vals {
            S::write_to_vec(v, &mut raw);
        }
        let d = S::bytes_to_values(&raw, vals.len()).map_err(|e| format!("bytes_to_values: {e:?}"))?;
        same("bytes_to_values", &d)
    });
    match r {
        Ok(Ok(())) => {}
        Ok(Err(e)) => {
            let kind = e.split(':').next().unwrap_or("?").to_string();
            acc.viol(group, arrangement, &kind, e);
        }
        Err(p) => {
            let loc = p.split(": ").next().unwrap_or("?").to_string();
            acc.viol(group, arrangement, &format!("panic:{loc}"), p);
        }
    }
}

/// All arrangements of a class list through one strategy.
fn classes_through<S: CompressionStrategy<T>, T: Clone>(acc: &mut Acc, group: &str, list: &[T], long: usize) {
    // constant pages
    for v in list {
        for n in [1usize, 2, long] {
            page::<S, T>(acc, group, "constant", &vec![v.clone(); n]);
        }
    }
    // the list as it is, reversed, and repeated to a long page
    page::<S, T>(acc, group, "ascending", list);
    let rev: Vec<T> = list.iter().rev().cloned().collect();
    page::<S, T>(acc, group, "descending", &rev);
    let rep: Vec<T> = list.iter().cycle().take(long).cloned().collect();
    page::<S, T>(acc, group, "cycled", &rep);
    // every ordered pair alternating (quick: every value against eight values spread over the list)
    let step = if long >= 4096 { 1 } else { (list.len() / 8).max(1) };
    for a in list {
        for b in list.iter().step_by(step) {
            let p: Vec<T> = (0..64).map(|i| if i % 2 == 0 { a.clone() } else { b.clone() }).collect();
            page::<S, T>(acc, group, "alternating_pair", &p);
        }
    }
}

macro_rules! int_classes {
    ($t:ty) => {{
        let mut v: Vec<$t> = vec![0, 1, 2, <$t>::MAX, <$t>::MAX - 1, <$t>::MIN, <$t>::MIN + 1];
        for k in 0..<$t>::BITS {
            let p = (1 as $t).wrapping_shl(k);
            v.push(p);
            v.push(p.wrapping_sub(1));
            v.push(p.wrapping_add(1));
            v.push(p.wrapping_neg());
        }
        let mut alt: $t = 0;
        for i in 0..<$t>::BITS {
            if i % 2 == 0 {
                alt |= (1 as $t).wrapping_shl(i);
            }
        }
        v.push(alt);
        v.push(!alt);
        v.sort();
        v.dedup();
        v
    }};
}

fn f32_classes() -> Vec<f32> {
    let mut v = Vec::new();
    let mant = [0u32, 1, 2, 0x7f_ffff, 0x7f_fffe, 0x2a_aaaa, 0x55_5555, 0x40_0000, 0x40_0001];
    let exps = [0u32, 1, 2, 126, 127, 128, 253, 254, 255];
    for s in [0u32, 1] {
        for e in exps {
            for m in mant {
                v.push(f32::from_bits(s << 31 | e << 23 | m));
            }
        }
    }
    v
}

fn f64_classes() -> Vec<f64> {
    let mut v = Vec::new();
    let full = (1u64 << 52) - 1;
    let mant = [0u64, 1, 2, full, full - 1, 0xa_aaaa_aaaa_aaaa, 0x5_5555_5555_5555, 1 << 51, (1 << 51) + 1];
    let exps = [0u64, 1, 2, 1022, 1023, 1024, 2045, 2046, 2047];
    for s in [0u64, 1] {
        for e in exps {
            for m in mant {
                v.push(f64::from_bits(s << 63 | e << 52 | m));
            }
        }
    }
    v
}

/// A class list through a real vector: push (more than one page), flush, re-open, read.
macro_rules! through_vec {
    ($acc:expr, $root:expr, $vec:ident, $t:ty, $name:expr, $list:expr, $bits:expr) => {{
        let list: &Vec<$t> = $list;
        let group = format!("{}:{}:vector", $name, stringify!($t));
        *$acc.per_group.entry(group.clone()).or_default() += 1;
        let dir = $root.sub("v");
        let r = guarded(|| -> Result<(), String> {
            let total = 4096 * 16 / std::mem::size_of::<$t>().max(1) + list.len() + 3;
            let want: Vec<$t> = list.iter().cycle().take(total).copied().collect();
            {
                let db = Database::open(&dir).map_err(|e| format!("{e:?}"))?;
                let mut v: $vec<usize, $t> = $vec::import(&db, "v", Version::ONE).map_err(|e| format!("import: {e:?}"))?;
                for x in &want {
                    v.push(*x);
                }
                v.flush().map_err(|e| format!("flush: {e:?}"))?;
                // a second, short write lands in the raw last page / re-encodes it
                for x in list.iter().take(5) {
                    v.push(*x);
                }
                v.flush().map_err(|e| format!("flush: {e:?}"))?;
                db.flush().map_err(|e| format!("{e:?}"))?;
            }
            let db = Database::open(&dir).map_err(|e| format!("{e:?}"))?;
            let v: $vec<usize, $t> = $vec::import(&db, "v", Version::ONE).map_err(|e| format!("import: {e:?}"))?;
            let got = v.collect();
            let mut want = want;
            want.extend(list.iter().take(5).copied());
            if got.len() != want.len() {
                return Err(format!("length: pushed {}, read back {}", want.len(), got.len()));
            }
            for (i, (g, w)) in got.iter().zip(want.iter()).enumerate() {
                if $bits(*g) != $bits(*w) {
                    return Err(format!("value: element {i} pushed as {:#x} read back as {:#x}", $bits(*w), $bits(*g)));
                }
            }
            Ok(())
        });
        $acc.pages += 1;
        match r {
            Ok(Ok(())) => {}
            Ok(Err(e)) => {
                let kind = e.split(':').next().unwrap_or("?").to_string();
                $acc.viol(&group, "cycled", &kind, e);
            }
            Err(p) => {
                let loc = p.split(": ").next().unwrap_or("?").to_string();
                $acc.viol(&group, "cycled", &format!("panic:{loc}"), p);
            }
        }
    }};
}

pub fn add(run: &mut Run, kf: &KnownFindings, tier: &str) {
    let classify = kf.classifier("C07");
    let quick = tier == "quick";
    let t0 = Instant::now();
    let root = Scratch::new("valuex");
    let mut acc = Acc {
        run,
        classify: &classify,
        pages: 0,
        values: 0,
        per_group: BTreeMap::new(),
        reported: Default::default(),
    };
    let long = if quick { 300 } else { 4096 };

    macro_rules! ints {
        ($($t:ty),*) => {$(
            let l = int_classes!($t);
            classes_through::<PcodecStrategy<$t>, $t>(&mut acc, concat!("pco:", stringify!($t)), &l, long);
            classes_through::<LZ4Strategy<$t>, $t>(&mut acc, concat!("lz4:", stringify!($t)), &l, long);
            classes_through::<ZstdStrategy<$t>, $t>(&mut acc, concat!("zstd:", stringify!($t)), &l, long);
            through_vec!(acc, root, PcoVec, $t, "pco", &l, |x: $t| x as u128);
            through_vec!(acc, root, LZ4Vec, $t, "lz4", &l, |x: $t| x as u128);
            through_vec!(acc, root, ZstdVec, $t, "zstd", &l, |x: $t| x as u128);
        )*};
    }
    ints!(u8, u16, u32, u64, i8, i16, i32, i64);
    // 128-bit integers: LZ4 / Zstd only (pcodec has no 128-bit number type)
    {
        let l = int_classes!(u128);
        classes_through::<LZ4Strategy<u128>, u128>(&mut acc, "lz4:u128", &l, long.min(300));
        classes_through::<ZstdStrategy<u128>, u128>(&mut acc, "zstd:u128", &l, long.min(300));
    }
    let f = f32_classes();
    classes_through::<PcodecStrategy<f32>, f32>(&mut acc, "pco:f32", &f, long);
    classes_through::<LZ4Strategy<f32>, f32>(&mut acc, "lz4:f32", &f, long);
    classes_through::<ZstdStrategy<f32>, f32>(&mut acc, "zstd:f32", &f, long);
    through_vec!(acc, root, PcoVec, f32, "pco", &f, |x: f32| x.to_bits());
    through_vec!(acc, root, LZ4Vec, f32, "lz4", &f, |x: f32| x.to_bits());
    through_vec!(acc, root, ZstdVec, f32, "zstd", &f, |x: f32| x.to_bits());
    let d = f64_classes();
    classes_through::<PcodecStrategy<f64>, f64>(&mut acc, "pco:f64", &d, long);
    classes_through::<LZ4Strategy<f64>, f64>(&mut acc, "lz4:f64", &d, long);
    classes_through::<ZstdStrategy<f64>, f64>(&mut acc, "zstd:f64", &d, long);
    through_vec!(acc, root, PcoVec, f64, "pco", &d, |x: f64| x.to_bits());
    through_vec!(acc, root, LZ4Vec, f64, "lz4", &d, |x: f64| x.to_bits());
    through_vec!(acc, root, ZstdVec, f64, "zstd", &d, |x: f64| x.to_bits());

    // complete small spaces: every 8- and 16-bit value, ascending and in a stride permutation
    let mut complete: Vec<String> = Vec::new();
    macro_rules! complete_small {
        ($($t:ty, $u:ty, $mul:expr);*) => {$(
            let all: Vec<$t> = (0..=<$u>::MAX).map(|b| b as $t).collect();
            let perm: Vec<$t> = (0..=<$u>::MAX).map(|b| b.wrapping_mul($mul) as $t).collect();
            for (arr, vals) in [("complete_ascending", &all), ("complete_permuted", &perm)] {
                for chunk in vals.chunks(4096) {
                    page::<PcodecStrategy<$t>, $t>(&mut acc, concat!("pco:", stringify!($t)), arr, chunk);
                    page::<LZ4Strategy<$t>, $t>(&mut acc, concat!("lz4:", stringify!($t)), arr, chunk);
                    page::<ZstdStrategy<$t>, $t>(&mut acc, concat!("zstd:", stringify!($t)), arr, chunk);
                }
            }
            complete.push(format!("{}: all {} values", stringify!($t), <$u>::MAX as u64 + 1));
        )*};
    }
    complete_small!(u8, u8, 167u8; i8, u8, 167u8; u16, u16, 40503u16; i16, u16, 40503u16);

    // thorough: the complete f32 space (2^32 bit patterns), ascending and permuted. Pure
    // computation (no mappings), so unlike the history engines this part does scale across
    // threads: the page range is split over eight of them.
    let mut f32_done = 0u64;
    let mut f32_cap = None;
    if !quick {
        let budget = std::time::Duration::from_secs(1500);
        const THREADS: u32 = 8;
        'outer: for (arr, mul) in [("complete_ascending", 1u32), ("complete_permuted", 2654435761u32)] {
            let results: Vec<(u64, u64, Option<String>, bool)> = std::thread::scope(|s| {
                let hs: Vec<_> = (0..THREADS)
                    .map(|t| {
                        s.spawn(move || {
                            let mut buf: Vec<f32> = Vec::with_capacity(4096);
                            let mut dec: Vec<f32> = Vec::new();
                            let (mut pages, mut vals) = (0u64, 0u64);
                            let per = (1u32 << 20) / THREADS;
                            for hi in t * per..(t + 1) * per {
                                buf.clear();
                                for lo in 0..4096u32 {
                                    buf.push(f32::from_bits((hi << 12 | lo).wrapping_mul(mul)));
                                }
                                let bad = guarded(|| -> Option<String> {
                                    let check = |what: &str, got: &[f32]| -> Option<String> {
                                        if got.len() != buf.len() {
                                            return Some(format!("{what}: {} values in, {} out", buf.len(), got.len()));
                                        }
                                        got.iter().zip(buf.iter()).position(|(a, b)| a.to_bits() != b.to_bits()).map(|i| {
                                            format!("{what}: bit pattern {:#010x} came back as {:#010x}", buf[i].to_bits(), got[i].to_bits())
                                        })
                                    };
                                    let enc = match PcodecStrategy::<f32>::compress(&buf) {
                                        Ok(e) => e,
                                        Err(e) => return Some(format!("compress: {e:?}")),
                                    };
                                    match PcodecStrategy::<f32>::decompress_into(&enc, buf.len(), &mut dec) {
                                        Ok(()) => {
                                            if let Some(b) = check("pco decompress_into", &dec) {
                                                return Some(b);
                                            }
                                        }
                                        Err(e) => return Some(format!("pco decompress_into: {e:?}")),
                                    }
                                    if hi % 16 == 0 {
                                        // the byte-oriented codecs do not look at the number: every
                                        // sixteenth page (still every sign/exponent combination)
                                        for (name, r) in [
                                            ("lz4", LZ4Strategy::<f32>::compress(&buf).and_then(|e| LZ4Strategy::<f32>::decompress(&e, buf.len()))),
                                            ("zstd", ZstdStrategy::<f32>::compress(&buf).and_then(|e| ZstdStrategy::<f32>::decompress(&e, buf.len()))),
                                        ] {
                                            match r {
                                                Ok(v) => {
                                                    if let Some(b) = check(name, &v) {
                                                        return Some(b);
                                                    }
                                                }
                                                Err(e) => return Some(format!("{name}: {e:?}")),
                                            }
                                        }
                                    }
                                    None
                                });
                                pages += 1;
                                vals += 4096;
                                match bad {
                                    Ok(None) => {}
                                    Ok(Some(b)) => return (pages, vals, Some(b), false),
                                    Err(p) => return (pages, vals, Some(format!("panic: {p}")), false),
                                }
                                if hi % 1024 == 0 && t0.elapsed() > budget {
                                    return (pages, vals, None, true);
                                }
                            }
                            (pages, vals, None, false)
                        })
                    })
                    .collect();
                hs.into_iter().map(|h| h.join().expect("valuex thread")).collect()
            });
            let mut capped = false;
            for (p, v, bad, cap) in results {
                acc.pages += p;
                acc.values += v;
                f32_done += v;
                *acc.per_group.entry("pco:f32".to_string()).or_default() += p;
                capped |= cap;
                if let Some(b) = bad {
                    let kind = b.split(':').next().unwrap_or("?").to_string();
                    acc.viol("pco:f32", arr, &kind, b);
                }
            }
            if capped {
                f32_cap = Some(format!("wall cap {}s hit in {arr} after {} bit patterns", budget.as_secs(), f32_done));
                break 'outer;
            }
            complete.push(format!("f32: all 2^32 bit patterns ({arr}) through pcodec, every sixteenth page also through LZ4 and Zstd"));
        }
    }

    let pages = acc.pages;
    let values = acc.values;
    let per_group = std::mem::take(&mut acc.per_group);
    drop(acc);
    eprintln!("  [valuex] pages={pages} values={values} f32_bit_patterns={f32_done} cap={f32_cap:?} wall={:.1}s", t0.elapsed().as_secs_f64());
    run.cov_add("states", pages);
    run.cov_add("transitions", pages);
    run.cov_add("traces_validated_against_impl", pages);
    run.cov_add("evaluations", pages);
    run.cov_add("distinct_nontrivial", pages);
    if f32_cap.is_some() {
        run.cov("exhaustive", json!(false));
    }
    let mut e = run.coverage.remove("explorations").unwrap_or_else(|| json!([]));
    e.as_array_mut().unwrap().push(json!({
        "label": "valuex",
        "pages_round_tripped": pages,
        "values_round_tripped": values,
        "value_spaces_enumerated_completely": complete,
        "class_lists": "integers: 0, 1, 2, MIN, MIN+1, MAX-1, MAX, +-2^k, 2^k+-1, alternating bits; floats: sign x 9 exponents (0,1,2,bias-1,bias,bias+1,max-2,max-1,max) x 9 mantissas (0,1,2,all ones,all ones-1,1010..,0101..,top bit,top bit+1) — includes +-0, subnormals, infinities, quiet and signalling NaN payloads",
        "arrangements": if quick { "constant pages (1, 2, 300), ascending, descending, cycled to 300 values, every value alternating with each of eight values spread over the class list (64 values)" } else { "constant pages (1, 2, 4096), ascending, descending, cycled to 4096 values, every ordered pair of class values alternating (64 values)" },
        "cap_hit": f32_cap,
        "pages_per_group": per_group,
    }));
    run.cov("explorations", e);
    run.push_sample(json!({"exploration": "valuex", "page": "pco:f32 alternating_pair [f32::from_bits(0x7fc00001), f32::from_bits(0x80000000)] x 32"}));
    run.assumptions.push("valuex: 32-bit integers, 64- and 128-bit types are covered by the stated class lists and arrangements, not completely; 8- and 16-bit types completely; f32 completely in the thorough tier".into());
}
