//! Read battery: every read path of a vector against the model (C08), with every byte
//! fetched on its behalf checked against the owning region's bounds (C20).

use std::collections::BTreeSet;

use rawdb::verif::{Event, MMAP_CROSSOVER_CELL, set_threshold, threshold};
use vecdb::{
    AnyStoredVec, AnyVec, CachedVec, ReadableCloneableVec, ReadableVec, StoredVec, VecIndex,
};

use crate::{
    seqx::{Violation, guarded},
    tap,
    vecx::{Elem, Model, Subject, VEC_NAME, Val},
};

#[derive(Default)]
pub struct Extra<T> {
    /// (api, from, to, result) of stored-only range scans
    pub ranges: Vec<(&'static str, usize, usize, Result<Vec<T>, String>)>,
    /// (api, index, result) of stored-only point reads
    pub points: Vec<(&'static str, usize, Result<Option<T>, String>)>,
    /// (api, index, result) of point reads that see buffered values, updates and deletions
    pub logical: Vec<(&'static str, usize, Result<Option<T>, String>)>,
}

pub fn raw_extra<I, T, S>(
    v: &vecdb::ReadWriteRawVec<I, T, S>,
    from: usize,
    to: usize,
    out: &mut Extra<T>,
) where
    I: VecIndex,
    T: Elem,
    S: vecdb::RawStrategy<T>,
{
    out.ranges.push((
        "fold_stored_io",
        from,
        to,
        guarded(|| {
            v.fold_stored_io(from, to, Vec::new(), |mut a, x| {
                a.push(x);
                a
            })
        }),
    ));
    out.ranges.push((
        "fold_stored_mmap",
        from,
        to,
        guarded(|| {
            v.fold_stored_mmap(from, to, Vec::new(), |mut a, x| {
                a.push(x);
                a
            })
        }),
    ));
    for i in [from, to] {
        if i == usize::MAX {
            continue;
        }
        out.points
            .push(("vec_reader:try_get", i, guarded(|| v.reader().try_get(i))));
        // a read of the stored layer through an explicit Reader: the stored value, or an error
        out.points
            .push(("read_at_once", i, guarded(|| v.read_at_once(i).ok())));
        out.logical.push((
            "get_any_or_read_at",
            i,
            guarded(|| v.get_any_or_read_at(i, &v.create_reader()).ok().flatten()),
        ));
        if i < v.stored_len() {
            out.points
                .push(("vec_reader:get", i, guarded(|| Some(v.reader().get(i)))));
        }
    }
}

/// Stored-only scans of a compressed vector (the inner type is not nameable from
/// outside the crate, so this is a macro over the wrapper's deref'd methods).
#[macro_export]
macro_rules! comp_extra_body {
    ($v:expr, $from:expr, $to:expr, $out:expr) => {{
        let (v, from, to) = ($v, $from, $to);
        $out.ranges.push((
            "fold_stored_io",
            from,
            to,
            $crate::seqx::guarded(|| {
                v.fold_stored_io(from, to, Vec::new(), |mut a, x| {
                    a.push(x);
                    a
                })
            }),
        ));
        $out.ranges.push((
            "fold_stored_mmap",
            from,
            to,
            $crate::seqx::guarded(|| {
                v.fold_stored_mmap(from, to, Vec::new(), |mut a, x| {
                    a.push(x);
                    a
                })
            }),
        ));
    }};
}

pub struct Ctx<'a> {
    pub viols: Vec<Violation>,
    pub calls: u64,
    pub class: &'a str,
    pub situation: &'a str,
    /// database whose regions belong to the vector (None: no access checking)
    pub db: Option<rawdb::Database>,
    pub seen_sigs: BTreeSet<String>,
    /// property charged for wrong elements / panics
    pub prop: &'a str,
}

impl<'a> Ctx<'a> {
    pub fn push(&mut self, prop: &str, api: &str, div: &str, detail: String) {
        let signature = format!("{}|read:{api}|{}|{div}", self.class, self.situation);
        if self.seen_sigs.insert(signature.clone()) {
            self.viols.push(Violation {
                property: prop.into(),
                signature,
                detail,
            });
        }
    }

    /// C20: every Access event recorded during the call must lie within the current
    /// length of a region of this vector.
    fn check_accesses(&mut self, api: &str) {
        let evs = tap::drain_log();
        if evs.is_empty() {
            return;
        }
        let Some(db) = self.db.clone() else { return };
        let names = [
            format!("{VEC_NAME}/usize"),
            format!("{VEC_NAME}/usize_pages"),
            format!("{VEC_NAME}/usize_holes"),
        ];
        let regions: Vec<(usize, usize)> = names
            .iter()
            .filter_map(|n| db.get_region(n))
            .map(|r| {
                let m = r.meta();
                (m.start(), m.len())
            })
            .collect();
        for ev in evs {
            if let Event::Access {
                kind,
                region_start,
                off,
                len,
                ..
            } = ev
            {
                match regions.iter().find(|(s, _)| *s == region_start) {
                    None => self.push(
                        "C20",
                        api,
                        "access_foreign_region",
                        format!("{kind}: read at region start {region_start}, which is no region of this vector ({regions:?})"),
                    ),
                    Some((_, rlen)) => {
                        if off.checked_add(len).is_none_or(|e| e > *rlen) {
                            self.push(
                                "C20",
                                api,
                                "access_beyond_region_len",
                                format!("{kind}: bytes {off}..{} of a region whose length is {rlen}", off.wrapping_add(len)),
                            );
                        }
                    }
                }
            }
        }
    }

    fn call<R>(&mut self, api: &str, f: impl FnOnce() -> R) -> Option<R> {
        self.calls += 1;
        let r = guarded(f);
        self.check_accesses(api);
        match r {
            Ok(v) => Some(v),
            Err(p) => {
                let loc = p.split(": ").next().unwrap_or("?").to_string();
                let prop = self.prop;
                self.push(prop, api, &format!("panic:{loc}"), p);
                None
            }
        }
    }

    fn expect_eq<T: Val>(&mut self, api: &str, what: &str, got: &[T], want: &[T]) {
        if got.len() != want.len() || got.iter().zip(want).any(|(a, b)| a.bits() != b.bits()) {
            let first = got
                .iter()
                .zip(want)
                .position(|(a, b)| a.bits() != b.bits())
                .unwrap_or(got.len().min(want.len()));
            let p = self.prop;
            self.push(
                p,
                api,
                "elements",
                format!(
                    "{what}: returned {} elements, expected {}; first difference at position {first}: {:?} vs {:?}",
                    got.len(),
                    want.len(),
                    got.get(first),
                    want.get(first)
                ),
            );
        }
    }

    fn expect_opt<T: Val>(&mut self, api: &str, what: &str, got: Option<T>, want: Option<T>) {
        if got.map(|x| x.bits()) != want.map(|x| x.bits()) {
            let p = self.prop;
            self.push(
                p,
                api,
                "element",
                format!("{what}: returned {got:?}, expected {want:?}"),
            );
        }
    }
}

fn bounds(len: usize, stored: usize, page: usize, holes: &[usize]) -> Vec<usize> {
    let mut b = BTreeSet::new();
    for x in [0, 1, len, len + 1, stored, stored + 1, usize::MAX] {
        b.insert(x);
    }
    if len > 0 {
        b.insert(len - 1);
    }
    if stored > 0 {
        b.insert(stored - 1);
    }
    if len >= page - 1 {
        b.insert(page - 1);
        b.insert(page);
        b.insert(page + 1);
    }
    if let Some(h) = holes.first() {
        b.insert(*h);
        b.insert(h + 1);
    }
    b.into_iter().collect()
}

/// The generic ReadableVec battery on `v`; `contents[i]` is None for a deleted slot.
pub fn generic<T: Val, R: ReadableVec<usize, T>>(
    cx: &mut Ctx,
    tag: &str,
    v: &R,
    contents: &[Option<T>],
    bset: &[usize],
    // false: skip the cursor-based sorted reads (see `battery`)
    index_reads_skip_holes: bool,
) {
    let len = contents.len();
    let dense = |from: usize, to: usize| -> Vec<T> {
        let f = from.min(len);
        let t = to.min(len);
        if f >= t {
            vec![]
        } else {
            contents[f..t].iter().flatten().copied().collect()
        }
    };
    let api = |s: &str| format!("{tag}{s}");

    if let Some(l) = cx.call(&api("len"), || v.len()) {
        if l != len {
            let p = cx.prop;
            cx.push(p, &api("len"), "len", format!("len {l}, expected {len}"));
            return;
        }
    }
    // full pair set on the two workhorse entry points
    for &from in bset {
        for &to in bset {
            let want = dense(from, to);
            if let Some(got) = cx.call(&api("collect_range_at"), || v.collect_range_at(from, to)) {
                cx.expect_eq(&api("collect_range_at"), &format!("[{from},{to})"), &got, &want);
            }
            if let Some(got) = cx.call(&api("fold_range_at"), || {
                v.fold_range_at(from, to, Vec::new(), |mut a, x| {
                    a.push(x);
                    a
                })
            }) {
                cx.expect_eq(&api("fold_range_at"), &format!("[{from},{to})"), &got, &want);
            }
        }
    }
    // reduced pair set on the remaining range APIs
    let mut pairs: Vec<(usize, usize)> = vec![(0, len), (0, usize::MAX), (len, 0)];
    for w in bset.windows(2) {
        pairs.push((w[0], w[1]));
        pairs.push((w[1], w[0]));
    }
    if bset.len() > 3 {
        pairs.push((bset[1], bset[bset.len() - 2]));
    }
    for (from, to) in pairs {
        let want = dense(from, to);
        let what = format!("[{from},{to})");
        if let Some(got) = cx.call(&api("collect_range_dyn"), || v.collect_range_dyn(from, to)) {
            cx.expect_eq(&api("collect_range_dyn"), &what, &got, &want);
        }
        if let Some(got) = cx.call(&api("try_fold_range_at"), || {
            v.try_fold_range_at(from, to, Vec::new(), |mut a, x| {
                a.push(x);
                Ok::<_, ()>(a)
            })
        }) {
            cx.expect_eq(&api("try_fold_range_at"), &what, &got.unwrap_or_default(), &want);
        }
        // early exit after two elements
        if let Some(got) = cx.call(&api("try_fold_range_at:early_exit"), || {
            let mut seen = Vec::new();
            let _ = v.try_fold_range_at(from, to, 0usize, |n, x| {
                seen.push(x);
                if n + 1 >= 2 { Err(()) } else { Ok(n + 1) }
            });
            seen
        }) {
            let w: Vec<T> = want.iter().take(2).copied().collect();
            cx.expect_eq(&api("try_fold_range_at:early_exit"), &what, &got, &w);
        }
        if let Some(got) = cx.call(&api("for_each_range_at"), || {
            let mut a = Vec::new();
            v.for_each_range_at(from, to, |x| a.push(x));
            a
        }) {
            cx.expect_eq(&api("for_each_range_at"), &what, &got, &want);
        }
        if let Some(got) = cx.call(&api("for_each_range_dyn_at"), || {
            let mut a = Vec::new();
            v.for_each_range_dyn_at(from, to, &mut |x| a.push(x));
            a
        }) {
            cx.expect_eq(&api("for_each_range_dyn_at"), &what, &got, &want);
        }
        if let Some(got) = cx.call(&api("read_into_at"), || {
            let mut a = vec![T::make(424242)];
            v.read_into_at(from, to, &mut a);
            a
        }) {
            let mut w = vec![T::make(424242)];
            w.extend(want.iter().copied());
            cx.expect_eq(&api("read_into_at"), &what, &got, &w);
        }
        if let Some(got) = cx.call(&api("min_at"), || v.min_at(from, to)) {
            let w = want.iter().copied().fold(None, |a: Option<T>, x| match a {
                Some(c) if c <= x => Some(c),
                _ => Some(x),
            });
            cx.expect_opt(&api("min_at"), &what, got, w);
        }
        if let Some(got) = cx.call(&api("max_dyn"), || v.max_dyn(from, to)) {
            let w = want.iter().copied().fold(None, |a: Option<T>, x| match a {
                Some(c) if c >= x => Some(c),
                _ => Some(x),
            });
            cx.expect_opt(&api("max_dyn"), &what, got, w);
        }
        // the remaining provided methods (thin wrappers, but each is a public entry point)
        if let Some(got) = cx.call(&api("max_at"), || v.max_at(from, to)) {
            let w = want.iter().copied().fold(None, |a: Option<T>, x| match a {
                Some(c) if c >= x => Some(c),
                _ => Some(x),
            });
            cx.expect_opt(&api("max_at"), &what, got, w);
        }
        if let Some(got) = cx.call(&api("min_dyn"), || v.min_dyn(from, to)) {
            let w = want.iter().copied().fold(None, |a: Option<T>, x| match a {
                Some(c) if c <= x => Some(c),
                _ => Some(x),
            });
            cx.expect_opt(&api("min_dyn"), &what, got, w);
        }
        if let Some(got) = cx.call(&api("collect_range_into_at"), || {
            let mut a = vec![T::make(424242)];
            v.collect_range_into_at(from, to, &mut a);
            a
        }) {
            cx.expect_eq(&api("collect_range_into_at"), &what, &got, &want);
        }
        if let Some(got) = cx.call(&api("try_for_each_range_at"), || {
            let mut a = Vec::new();
            let r: Result<(), ()> = v.try_for_each_range_at(from, to, |x| {
                a.push(x);
                Ok(())
            });
            r.map(|_| a).unwrap_or_default()
        }) {
            cx.expect_eq(&api("try_for_each_range_at"), &what, &got, &want);
        }
    }
    // whole-vector conveniences
    let all = dense(0, len);
    if let Some(got) = cx.call(&api("collect"), || v.collect()) {
        cx.expect_eq(&api("collect"), "all", &got, &all);
    }
    if let Some(got) = cx.call(&api("collect_dyn"), || v.collect_dyn()) {
        cx.expect_eq(&api("collect_dyn"), "all", &got, &all);
    }
    if let Some(got) = cx.call(&api("fold"), || {
        v.fold(Vec::new(), |mut a, x| {
            a.push(x);
            a
        })
    }) {
        cx.expect_eq(&api("fold"), "all", &got, &all);
    }
    if let Some(got) = cx.call(&api("for_each"), || {
        let mut a = Vec::new();
        v.for_each(|x| a.push(x));
        a
    }) {
        cx.expect_eq(&api("for_each"), "all", &got, &all);
    }
    for (f, t) in [(Some(-1i64), None), (None, Some(-1)), (Some(-3), Some(-1)), (Some(1), Some(2))] {
        let conv = |i: i64| -> usize {
            if i >= 0 {
                (i as usize).min(len)
            } else {
                (len as i64 + i).max(0) as usize
            }
        };
        let want = dense(f.map_or(0, conv), t.map_or(len, conv));
        if let Some(got) = cx.call(&api("collect_signed_range"), || v.collect_signed_range(f, t)) {
            cx.expect_eq(&api("collect_signed_range"), &format!("{f:?}..{t:?}"), &got, &want);
        }
        if let Some(got) = cx.call(&api("collect_signed_range_dyn"), || v.collect_signed_range_dyn(f, t)) {
            cx.expect_eq(&api("collect_signed_range_dyn"), &format!("{f:?}..{t:?}"), &got, &want);
        }
    }
    // index-addressed reads
    let at = |i: usize| -> Option<T> { contents.get(i).copied().flatten() };
    for &i in bset {
        if let Some(got) = cx.call(&api("collect_one_at"), || v.collect_one_at(i)) {
            cx.expect_opt(&api("collect_one_at"), &format!("index {i}"), got, at(i));
        }
    }
    if let Some(got) = cx.call(&api("collect_first"), || v.collect_first()) {
        cx.expect_opt(&api("collect_first"), "first", got, at(0));
    }
    if let Some(got) = cx.call(&api("collect_last"), || v.collect_last()) {
        cx.expect_opt(&api("collect_last"), "last", got, len.checked_sub(1).and_then(at));
    }
    // sorted reads: all subsets of (up to) six boundary indices
    let mut six: Vec<usize> = bset.iter().copied().filter(|i| *i != usize::MAX).collect();
    if six.len() > 6 {
        let keep = [0, 1, six.len() / 2, six.len() - 3, six.len() - 2, six.len() - 1];
        six = keep.iter().map(|k| six[*k]).collect::<BTreeSet<_>>().into_iter().collect();
    }
    for mask in 0u32..(1 << six.len()) {
        if !index_reads_skip_holes {
            break;
        }
        let idx: Vec<usize> = six
            .iter()
            .enumerate()
            .filter(|(k, _)| mask & (1 << k) != 0)
            .map(|(_, i)| *i)
            .collect();
        let want: Vec<T> = idx.iter().filter_map(|i| at(*i)).collect();
        if let Some(got) = cx.call(&api("read_sorted_at"), || v.read_sorted_at(&idx)) {
            cx.expect_eq(&api("read_sorted_at"), &format!("indices {idx:?}"), &got, &want);
        }
        if let Some(got) = cx.call(&api("read_sorted_into_at"), || {
            let mut a = Vec::new();
            v.read_sorted_into_at(&idx, &mut a);
            a
        }) {
            cx.expect_eq(&api("read_sorted_into_at"), &format!("indices {idx:?}"), &got, &want);
        }
    }
}

/// Cursor API (needs `Sized`).
pub fn cursor_checks<T: Val, R: ReadableVec<usize, T>>(
    cx: &mut Ctx,
    tag: &str,
    v: &R,
    contents: &[Option<T>],
    bset: &[usize],
) {
    let len = contents.len();
    let all: Vec<T> = contents.iter().flatten().copied().collect();
    let api = |s: &str| format!("{tag}{s}");
    if let Some(got) = cx.call(&api("cursor:next"), || {
        let mut c = v.cursor();
        let mut a = Vec::new();
        let mut guard = 0;
        while let Some(x) = c.next() {
            a.push(x);
            guard += 1;
            if guard > len + 2 {
                break;
            }
        }
        a
    }) {
        cx.expect_eq(&api("cursor:next"), "all", &got, &all);
    }
    for &i in bset {
        if let Some(got) = cx.call(&api("cursor:get"), || v.cursor().get(i)) {
            cx.expect_opt(
                &api("cursor:get"),
                &format!("index {i}"),
                got,
                contents.get(i).copied().flatten(),
            );
        }
    }
    for &skip in bset.iter().filter(|i| **i <= len + 1) {
        if let Some(got) = cx.call(&api("cursor:advance+fold"), || {
            let mut c = v.cursor();
            c.advance(skip);
            c.fold(3, Vec::new(), |mut a, x| {
                a.push(x);
                a
            })
        }) {
            // only defined without deleted slots (positions and indices coincide)
            if contents.iter().all(|x| x.is_some()) {
                let f = skip.min(len);
                let t = (f + 3).min(len);
                let want: Vec<T> = contents[f..t].iter().flatten().copied().collect();
                cx.expect_eq(&api("cursor:advance+fold"), &format!("skip {skip}"), &got, &want);
            }
        }
    }
}

pub fn battery<V: Subject>(
    v: &V,
    m: &Model<V::T>,
    class: &str,
    situation: &str,
    holed_cursor: bool,
) -> (Vec<Violation>, u64)
where
    V::T: Elem,
{
    let mut cx = Ctx {
        viols: Vec::new(),
        calls: 0,
        class,
        situation,
        db: Some(v.db()),
        seen_sigs: BTreeSet::new(),
        prop: "C08",
    };
    let len = m.items.len();
    let stored = v.stored_len().min(len + 1);
    let page = 16 * 1024 / size_of::<V::T>();
    let holes = m.holes();
    let bset = bounds(len, stored, page, &holes);

    tap::start_log();
    let _ = tap::drain_log();

    // --- the vector itself (sees buffered values, updates and deletions)
    // Cursor-based paths (cursor, default read_sorted) loop forever or panic on vectors with
    // deleted slots (F8); they are exercised there only in the dedicated exploration.
    let _ = holed_cursor;
    let cursor_ok = true;
    generic(&mut cx, "", v, &m.items, &bset, cursor_ok);
    if cursor_ok {
        cursor_checks(&mut cx, "", v, &m.items, &bset);
    }

    // --- stored-only views: compared with the stored layer as of the last write
    let stored_known = !m.stored_uncertain;
    let stored_contents: Vec<Option<V::T>> = m
        .stored_items
        .iter()
        .take(m.stored)
        .map(|x| Some(*x))
        .collect();
    let sb = bounds(stored_contents.len(), stored_contents.len(), page, &[]);
    {
        let ro = v.read_only_clone();
        if stored_known {
            generic(&mut cx, "ro_clone:", &ro, &stored_contents, &sb, true);
            cursor_checks(&mut cx, "ro_clone:", &ro, &stored_contents, &sb);
        } else {
            // contents are not compared (the model does not know the stored layer after a
            // rollback), but the reads are still issued: panics and out-of-region accesses
            // are judged
            let l = ro.len();
            for &(f, t) in &[(0usize, l), (0, usize::MAX), (l.saturating_sub(1), l)] {
                cx.call("ro_clone:collect_range_at", || ro.collect_range_at(f, t));
                cx.call("ro_clone:fold_range_at", || ro.fold_range_at(f, t, 0usize, |a, _| a + 1));
            }
            for i in [0, l.saturating_sub(1), l] {
                cx.call("ro_clone:collect_one_at", || ro.collect_one_at(i));
            }
        }
        // cached wrapper over the read-only clone
        let cached = CachedVec::wrap(ro.clone());
        if stored_known {
            if let Some(got) = cx.call("cached:cached", || cached.cached().to_vec()) {
                let want: Vec<V::T> = stored_contents.iter().flatten().copied().collect();
                cx.expect_eq("cached:cached", "all", &got, &want);
            }
            for &i in &sb {
                if let Some(got) = cx.call("cached:get_at", || cached.get_at(i)) {
                    cx.expect_opt(
                        "cached:get_at",
                        &format!("index {i}"),
                        got,
                        stored_contents.get(i).copied().flatten(),
                    );
                }
            }
            generic(&mut cx, "cached:", &cached, &stored_contents, &sb[..sb.len().min(5)], true);
        }
    }
    {
        let boxed = v.read_only_boxed_clone();
        if stored_known {
            let want: Vec<V::T> = stored_contents.iter().flatten().copied().collect();
            if let Some(got) = cx.call("ro_boxed:collect_dyn", || boxed.collect_dyn()) {
                cx.expect_eq("ro_boxed:collect_dyn", "all", &got, &want);
            }
            for &i in &sb {
                if let Some(got) = cx.call("ro_boxed:collect_one_at", || boxed.collect_one_at(i)) {
                    cx.expect_opt(
                        "ro_boxed:collect_one_at",
                        &format!("index {i}"),
                        got,
                        stored_contents.get(i).copied().flatten(),
                    );
                }
            }
        } else {
            cx.call("ro_boxed:collect_dyn", || boxed.collect_dyn());
        }
    }

    // --- format-specific stored-only paths
    let mut extra = Extra::default();
    let pairs: Vec<(usize, usize)> = {
        let mut p = vec![(0, usize::MAX)];
        for w in sb.windows(2) {
            p.push((w[0], w[1]));
        }
        p.push((sb[sb.len() / 2], sb[0]));
        p
    };
    for (f, t) in pairs {
        v.s_extra_reads(f, t, &mut extra);
        cx.check_accesses("stored_only");
    }
    cx.calls += (extra.ranges.len() + extra.points.len() + extra.logical.len()) as u64;
    for (api, i, r) in std::mem::take(&mut extra.logical) {
        match r {
            Err(p) => {
                let loc = p.split(": ").next().unwrap_or("?").to_string();
                cx.push("C08", api, &format!("panic:{loc}"), p);
            }
            Ok(got) => cx.expect_opt(api, &format!("index {i}"), got, m.items.get(i).copied().flatten()),
        }
    }
    for (api, f, t, r) in extra.ranges {
        match r {
            Err(p) => {
                let loc = p.split(": ").next().unwrap_or("?").to_string();
                cx.push("C08", api, &format!("panic:{loc}"), p);
            }
            Ok(got) => {
                if stored_known {
                    let n = stored_contents.len();
                    let (a, b) = (f.min(n), t.min(n));
                    let want: Vec<V::T> = if a < b {
                        stored_contents[a..b].iter().flatten().copied().collect()
                    } else {
                        vec![]
                    };
                    cx.expect_eq(api, &format!("[{f},{t})"), &got, &want);
                }
            }
        }
    }
    for (api, i, r) in extra.points {
        match r {
            Err(p) => {
                let loc = p.split(": ").next().unwrap_or("?").to_string();
                cx.push("C08", api, &format!("panic:{loc}"), p);
            }
            Ok(got) => {
                if stored_known {
                    cx.expect_opt(
                        api,
                        &format!("index {i}"),
                        got,
                        stored_contents.get(i).copied().flatten(),
                    );
                }
            }
        }
    }

    // --- the generic entry points again through the file-IO back-end
    let saved = threshold(MMAP_CROSSOVER_CELL);
    set_threshold(MMAP_CROSSOVER_CELL, 8);
    {
        let dense = |from: usize, to: usize, c: &[Option<V::T>]| -> Vec<V::T> {
            let n = c.len();
            let (a, b) = (from.min(n), to.min(n));
            if a < b {
                c[a..b].iter().flatten().copied().collect()
            } else {
                vec![]
            }
        };
        let mut pairs = vec![(0, usize::MAX)];
        for w in bset.windows(2) {
            pairs.push((w[0], w[1]));
        }
        let ro = v.read_only_clone();
        for (f, t) in pairs {
            if let Some(got) = cx.call("io_backend:fold_range_at", || {
                v.fold_range_at(f, t, Vec::new(), |mut a, x| {
                    a.push(x);
                    a
                })
            }) {
                cx.expect_eq("io_backend:fold_range_at", &format!("[{f},{t})"), &got, &dense(f, t, &m.items));
            }
            if let Some(got) = cx.call("io_backend:try_fold_range_at", || {
                v.try_fold_range_at(f, t, Vec::new(), |mut a, x| {
                    a.push(x);
                    Ok::<_, ()>(a)
                })
            }) {
                cx.expect_eq(
                    "io_backend:try_fold_range_at",
                    &format!("[{f},{t})"),
                    &got.unwrap_or_default(),
                    &dense(f, t, &m.items),
                );
            }
            if let Some(got) = cx.call("io_backend:ro_clone:fold_range_at", || {
                ro.fold_range_at(f, t, Vec::new(), |mut a, x| {
                    a.push(x);
                    a
                })
            }) {
                if stored_known {
                    cx.expect_eq(
                        "io_backend:ro_clone:fold_range_at",
                        &format!("[{f},{t})"),
                        &got,
                        &dense(f, t, &stored_contents),
                    );
                }
            }
        }
    }
    set_threshold(MMAP_CROSSOVER_CELL, saved);
    let _ = tap::take_log();

    (cx.viols, cx.calls)
}

// ---------------------------------------------------------------------------------------
// large-vector scan: the file-IO back-end across its refill-buffer boundaries
// ---------------------------------------------------------------------------------------

macro_rules! array_val {
    ($($n:expr),*) => {$(
        impl Val for [u8; $n] {
            fn make(x: u64) -> Self {
                let mut a = [0u8; $n];
                for (i, b) in a.iter_mut().enumerate() {
                    *b = (x >> ((i % 8) * 8)) as u8 ^ (i as u8).wrapping_mul(31);
                }
                a
            }
            fn bits(&self) -> u128 {
                crate::seqx::hash64(self) as u128
            }
        }
    )*};
}
array_val!(3, 20);

fn bigscan_one<V>(tag: &'static str, n: usize, out: &mut Vec<Violation>, calls: &mut u64)
where
    V: vecdb::StoredVec<I = usize> + vecdb::ImportableVec,
    V::T: Val,
{
    let root = crate::scratch::Scratch::new("bigscan");
    let dir = root.sub("db");
    let r = guarded(|| -> Result<Vec<(String, String)>, String> {
        let db = rawdb::Database::open(&dir).map_err(|e| format!("{e:?}"))?;
        let mut v = V::import(&db, "big", vecdb::Version::ONE).map_err(|e| format!("{e:?}"))?;
        let want: Vec<V::T> = (0..n as u64).map(|i| V::T::make(i * 2654435761 + 17)).collect();
        for x in &want {
            v.push(*x);
        }
        v.write().map_err(|e| format!("{e:?}"))?;
        let sz = size_of::<V::T>();
        let per_buf = 512 * 1024 / sz;
        let ranges = [
            (0usize, n),
            (per_buf.saturating_sub(700), (per_buf + 800).min(n)),
            (per_buf.min(n - 1), n),
            (2 * per_buf.min(n / 2) - 1, n),
            (n - 1, n),
        ];
        let mut bad = Vec::new();
        let ro = v.read_only_clone();
        let saved = threshold(MMAP_CROSSOVER_CELL);
        for (f, t) in ranges {
            if f >= t {
                continue;
            }
            let exp: Vec<u128> = want[f..t].iter().map(|x| x.bits()).collect();
            let mut cmp = |api: &str, got: Vec<V::T>| {
                let g: Vec<u128> = got.iter().map(|x| x.bits()).collect();
                if g != exp {
                    let first = g.iter().zip(&exp).position(|(a, b)| a != b).unwrap_or(g.len().min(exp.len()));
                    bad.push((
                        api.to_string(),
                        format!("[{f},{t}) of {n} x {sz}-byte elements: returned {} elements, expected {}, first difference at position {first}", g.len(), exp.len()),
                    ));
                }
            };
            cmp("collect_range_at", v.collect_range_at(f, t));
            cmp("ro_clone:collect_range_at", ro.collect_range_at(f, t));
            // the same entry points forced onto the file-IO back-end
            set_threshold(MMAP_CROSSOVER_CELL, 8);
            cmp("io_backend:fold_range_at", v.fold_range_at(f, t, Vec::new(), |mut a, x| { a.push(x); a }));
            cmp("io_backend:ro_clone:fold_range_at", ro.fold_range_at(f, t, Vec::new(), |mut a, x| { a.push(x); a }));
            cmp(
                "io_backend:try_fold_range_at",
                v.try_fold_range_at(f, t, Vec::new(), |mut a, x| { a.push(x); Ok::<_, ()>(a) }).unwrap_or_default(),
            );
            set_threshold(MMAP_CROSSOVER_CELL, saved);
        }
        set_threshold(MMAP_CROSSOVER_CELL, saved);
        Ok(bad)
    });
    *calls += 25;
    match r {
        Ok(Ok(bad)) => {
            for (api, d) in bad {
                out.push(Violation {
                    property: "C08".into(),
                    signature: format!("{tag}|read:{api}|bigscan;|elements"),
                    detail: d,
                });
            }
        }
        Ok(Err(e)) => out.push(Violation {
            property: "MACHINERY".into(),
            signature: format!("bigscan_setup:{e}"),
            detail: e,
        }),
        Err(p) => out.push(Violation {
            property: "C08".into(),
            signature: format!("{tag}|read:?|bigscan;|panic:{}", p.split(": ").next().unwrap_or("?")),
            detail: p,
        }),
    }
}

/// Vectors larger than one 512 KiB refill buffer, with element sizes that do and do not
/// divide the buffer size, scanned through every back-end.
pub fn bigscan(run: &mut crate::report::Run, kf: &crate::report::KnownFindings) {
    use vecdb::{BytesVec, LZ4Vec, PcoVec, ZeroCopyVec};
    let classify = kf.classifier("C08");
    let mut out = Vec::new();
    let mut calls = 0u64;
    bigscan_one::<BytesVec<usize, [u8; 3]>>("raw[u8;3]", 400_000, &mut out, &mut calls);
    bigscan_one::<BytesVec<usize, [u8; 20]>>("raw[u8;20]", 60_000, &mut out, &mut calls);
    bigscan_one::<BytesVec<usize, u32>>("raw_u32", 300_000, &mut out, &mut calls);
    bigscan_one::<ZeroCopyVec<usize, u64>>("zerocopy_u64", 150_000, &mut out, &mut calls);
    bigscan_one::<PcoVec<usize, u32>>("pco_u32", 300_000, &mut out, &mut calls);
    bigscan_one::<LZ4Vec<usize, [u8; 3]>>("lz4[u8;3]", 400_000, &mut out, &mut calls);
    run.cov_add("states", 6);
    run.cov_add("transitions", calls);
    run.cov_add("traces_validated_against_impl", calls);
    run.cov_add("evaluations", calls);
    let mut e = run.coverage.remove("explorations").unwrap_or_else(|| serde_json::json!([]));
    e.as_array_mut().unwrap().push(serde_json::json!({
        "label": "bigscan",
        "what": "six vectors of 60k-400k elements (element sizes 3, 4, 8, 20 bytes; raw and compressed), five ranges around the 512 KiB refill-buffer boundaries, every scan back-end",
        "read_calls": calls,
    }));
    run.cov("explorations", e);
    for v in out {
        let d = classify(&v);
        if d == crate::seqx::Disposition::Ignore {
            continue;
        }
        run.add_found(
            crate::seqx::Found {
                path: vec![],
                shown: vec!["bigscan".into()],
                violation: v,
                known: d == crate::seqx::Disposition::Known,
            },
            serde_json::json!({"engine": "bigscan"}),
        );
    }
}
