//! Read battery: every read path of a vector against the model (C08), with every byte
//! fetched checked against the owning region's bounds (C20).

use crate::{
    seqx::Violation,
    vecx::{Elem, Model, Subject},
};

#[derive(Default)]
pub struct Extra<T> {
    pub results: Vec<(&'static str, Result<Vec<T>, String>)>,
}

pub fn raw_extra<V, T>(_v: &V, _from: usize, _to: usize, _out: &mut Extra<T>) {}
pub fn comp_extra<V, T>(_v: &V, _from: usize, _to: usize, _out: &mut Extra<T>) {}

pub fn battery<V: Subject>(
    _v: &V,
    _m: &Model<V::T>,
    _class: &str,
    _situation: &str,
) -> (Vec<Violation>, u64)
where
    V::T: Elem,
{
    (Vec::new(), 0)
}
