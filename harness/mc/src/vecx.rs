//! vecx — histories of vector operations on one real stored vector (any format) against a
//! reference list of optional values (C03, C04, C07, C08, C13-vecdb, C16, C20).

use std::{
    collections::{BTreeMap, BTreeSet},
    fmt::Debug,
    fs,
    marker::PhantomData,
    path::{Path, PathBuf},
};

use rawdb::Database;
use vecdb::{
    AnyStoredVec, AnyVec, BytesVec, EagerVec, Error, ImportOptions, ImportableVec, LZ4Vec, PcoVec,
    ReadableVec, Stamp, StoredVec, Version, WritableVec, ZeroCopyVec, ZstdVec,
};

use crate::{
    seqx::{Key, Step, Sys, Violation, guarded, hash64, hash128},
    tap,
    vecreads,
};

pub const VEC_NAME: &str = "v";
pub const VERSION: Version = Version::ONE;

/// Values the read battery can compare.
pub trait Val: vecdb::VecValue + Copy + PartialEq + PartialOrd + Debug + Default {
    fn make(x: u64) -> Self;
    fn bits(&self) -> u128;
}

/// Element types driven through the stored-vector engine.
pub trait Elem: Val + vecdb::Bytes {}
impl<T: Val + vecdb::Bytes> Elem for T {}

macro_rules! int_elem {
    ($($t:ty),*) => {$(
        impl Val for $t {
            fn make(x: u64) -> Self { x as $t }
            fn bits(&self) -> u128 { *self as u128 }
        }
    )*};
}
int_elem!(u8, u16, u32, u64, i64);
impl<T: Val> Val for Option<T> {
    fn make(x: u64) -> Self {
        Some(T::make(x))
    }
    fn bits(&self) -> u128 {
        match self {
            None => u128::MAX,
            Some(v) => v.bits(),
        }
    }
}
impl Val for f32 {
    fn make(x: u64) -> Self {
        x as f32 * 0.5
    }
    fn bits(&self) -> u128 {
        self.to_bits() as u128
    }
}
impl Val for f64 {
    fn make(x: u64) -> Self {
        x as f64 * 0.25
    }
    fn bits(&self) -> u128 {
        self.to_bits() as u128
    }
}

/// A stored vector format under test.
pub trait Subject: StoredVec<I = usize> + Debug + Sized
where
    Self::T: Elem,
{
    const FORMAT: &'static str;
    const RAW: bool = false;
    const COMPRESSED: bool = false;

    fn s_import(db: &Database, retention: u16) -> vecdb::Result<Self> {
        Self::import_with(
            ImportOptions::new(db, VEC_NAME, VERSION).with_saved_stamped_changes(retention),
        )
    }
    fn s_update_at(&mut self, _i: usize, _v: Self::T) -> vecdb::Result<()> {
        unreachable!()
    }
    fn s_delete_at(&mut self, _i: usize) {
        unreachable!()
    }
    fn s_take_at(&mut self, _i: usize) -> vecdb::Result<Option<Self::T>> {
        unreachable!()
    }
    fn s_fill(&mut self, _v: Self::T) -> vecdb::Result<usize> {
        unreachable!()
    }
    fn s_holes(&self) -> Vec<usize> {
        vec![]
    }
    fn s_collect_holed(&self) -> vecdb::Result<Vec<Option<Self::T>>> {
        Ok(self.collect().into_iter().map(Some).collect())
    }
    /// Format-specific read paths (stored-only scans, point readers, zero-copy refs).
    fn s_extra_reads(&self, _from: usize, _to: usize, _out: &mut vecreads::Extra<Self::T>) {}
}

macro_rules! raw_subject {
    ($ty:ident, $name:literal, $bound:path) => {
        impl<T: Elem + $bound> Subject for $ty<usize, T> {
            const FORMAT: &'static str = $name;
            const RAW: bool = true;
            fn s_update_at(&mut self, i: usize, v: T) -> vecdb::Result<()> {
                self.update_at(i, v)
            }
            fn s_delete_at(&mut self, i: usize) {
                self.delete_at(i)
            }
            fn s_take_at(&mut self, i: usize) -> vecdb::Result<Option<T>> {
                let r = self.create_reader();
                self.take_at(i, &r)
            }
            fn s_fill(&mut self, v: T) -> vecdb::Result<usize> {
                self.fill_first_hole_or_push(v)
            }
            fn s_holes(&self) -> Vec<usize> {
                self.holes().iter().copied().collect()
            }
            fn s_collect_holed(&self) -> vecdb::Result<Vec<Option<T>>> {
                self.collect_holed()
            }
            fn s_extra_reads(&self, from: usize, to: usize, out: &mut vecreads::Extra<T>) {
                vecreads::raw_extra(self, from, to, out);
            }
        }
    };
}
raw_subject!(BytesVec, "bytes", vecdb::BytesVecValue);
raw_subject!(ZeroCopyVec, "zerocopy", vecdb::ZeroCopyVecValue);

macro_rules! comp_subject {
    ($ty:ident, $name:literal, $bound:path) => {
        impl<T: Elem + $bound> Subject for $ty<usize, T> {
            const FORMAT: &'static str = $name;
            const COMPRESSED: bool = true;
            fn s_extra_reads(&self, from: usize, to: usize, out: &mut vecreads::Extra<T>) {
                crate::comp_extra_body!(self, from, to, out);
            }
        }
    };
}
comp_subject!(PcoVec, "pco", vecdb::PcoVecValue);
comp_subject!(LZ4Vec, "lz4", vecdb::LZ4VecValue);
comp_subject!(ZstdVec, "zstd", vecdb::ZstdVecValue);

impl<T: Elem + vecdb::BytesVecValue> Subject for EagerVec<BytesVec<usize, T>> {
    const FORMAT: &'static str = "eager_bytes";
}
impl<T: Elem + vecdb::PcoVecValue> Subject for EagerVec<PcoVec<usize, T>> {
    const FORMAT: &'static str = "eager_pco";
    const COMPRESSED: bool = true;
}

#[derive(Debug, Clone, Copy, PartialEq, Eq, Hash, PartialOrd, Ord)]
pub enum Ix {
    Zero,
    One,
    /// stored_len - 1 / stored_len / stored_len + 1 of the model's written split
    StoredM1,
    Stored,
    StoredP1,
    /// page capacity - 1 / page capacity (compressed formats)
    PageM1,
    Page,
    LenM1,
    Len,
    LenP1,
    /// first deleted slot
    Hole,
}

#[derive(Debug, Clone, PartialEq, Eq, Hash)]
pub enum VecOp {
    Push(usize),
    Truncate(Ix),
    Write,
    Flush,
    StampedWrite(u64),
    Reset,
    /// flush vec + db, drop everything, reopen the database, import again
    Reimport,
    Update(Ix),
    Delete(Ix),
    Take(Ix),
    Fill,
    /// refused requests
    CheckedPushWrong,
    UpdateBeyond,
    ImportWrongVersion,
    ImportWrongFormat,
    /// commit with stamp = current + delta
    Commit(u64),
    Rollback,
    /// rollback_before(current stamp - delta + 1) i.e. target stamps just below
    RollbackBefore(u64),
    /// single-file faults on the change directory followed by a rollback (C16)
    FaultDeleteThenRollback,
    FaultTruncateThenRollback(usize),
    FaultLenFieldThenRollback(usize, u64),
}

impl VecOp {
    pub fn kind(&self) -> &'static str {
        match self {
            VecOp::Push(_) => "push",
            VecOp::Truncate(_) => "truncate",
            VecOp::Write => "write",
            VecOp::Flush => "flush",
            VecOp::StampedWrite(_) => "stamped_write",
            VecOp::Reset => "reset",
            VecOp::Reimport => "reimport",
            VecOp::Update(_) => "update_at",
            VecOp::Delete(_) => "delete_at",
            VecOp::Take(_) => "take_at",
            VecOp::Fill => "fill_first_hole_or_push",
            VecOp::CheckedPushWrong => "checked_push_wrong",
            VecOp::UpdateBeyond => "update_beyond",
            VecOp::ImportWrongVersion => "import_wrong_version",
            VecOp::ImportWrongFormat => "import_wrong_format",
            VecOp::Commit(_) => "commit",
            VecOp::Rollback => "rollback",
            VecOp::RollbackBefore(_) => "rollback_before",
            VecOp::FaultDeleteThenRollback => "fault_delete_rollback",
            VecOp::FaultTruncateThenRollback(_) => "fault_truncate_rollback",
            VecOp::FaultLenFieldThenRollback(..) => "fault_lenfield_rollback",
        }
    }
}

#[derive(Debug, Clone)]
pub struct VecCfg {
    pub label: String,
    pub kinds: BTreeSet<&'static str>,
    pub pushes: Vec<usize>,
    pub ixs: Vec<Ix>,
    pub retention: u16,
    /// run the read battery (C08) and the access-bound check (C20) after every step
    pub reads: bool,
    /// verify the on-disk page index after every step (C07)
    pub page_index: bool,
    pub max_len: usize,
    pub commit_deltas: Vec<u64>,
    pub max_commits: usize,
    pub op_timeout_ms: u64,
    /// also run the cursor-based read paths on vectors with deleted slots (known to loop
    /// forever / panic there, see F8; each such case costs one watchdog timeout)
    pub holed_cursor: bool,
    /// operations applied (to implementation and model) before exploration starts:
    /// exploration from a non-initial state
    pub prefill: Vec<VecOp>,
}

impl VecCfg {
    pub fn has(&self, k: &str) -> bool {
        self.kinds.contains(k)
    }
}

#[derive(Debug, Clone, PartialEq)]
pub struct Snap<T> {
    pub items: Vec<Option<T>>,
    pub stamp: u64,
    /// the commit that produced this state had truncated since its predecessor
    pub truncating: bool,
}

/// Reference model.
#[derive(Debug, Clone)]
pub struct Model<T> {
    pub items: Vec<Option<T>>,
    pub stamp: u64,
    /// number of leading elements that are in the stored layer
    pub stored: usize,
    /// value last assigned to each index, ignoring deletions (what a write puts on disk)
    pub phys: Vec<T>,
    /// contents of the stored layer as of the last write (for stored-only readers)
    pub stored_items: Vec<T>,
    /// the stored layer is not known to the model (after a rollback, until the next write)
    pub stored_uncertain: bool,
    /// deleted slots whose bytes on disk the model cannot know: slots that were deleted in a
    /// restored snapshot, or deleted while their restored value lived only in the overlay a
    /// rollback leaves behind (the deletion discards that overlay entry, the disk keeps
    /// whatever the rolled-back commit wrote). Stored-only views return those bytes, which
    /// nothing specifies; their contents are not compared while such a slot exists.
    pub unknown_phys: BTreeSet<usize>,
    pub epoch: u64,
    /// committed states still forming the current chain (C04): chain[0] = state at import
    pub chain: Vec<Snap<T>>,
    /// stamps of the change records the model expects on disk -> snapshot they restore
    pub records: BTreeMap<u64, Snap<T>>,
    pub commits_done: usize,
    /// edits since the last commit / rollback / import
    pub uncommitted: bool,
    /// an unstamped write happened while uncommitted edits existed (rollback then undefined)
    pub tainted: bool,
    pub truncated_since_commit: bool,
    /// stamps of change records a fault operation has damaged on disk
    pub damaged: BTreeSet<u64>,
    /// a truncating commit was rolled back and nothing has been written since: the bytes on
    /// disk are those of the undone commit
    pub undone_trunc: bool,
    /// chain length right after a truncating commit was undone: the change records of chain
    /// entries below it were written before that undo (finding F3: they assume bytes on disk
    /// that the undo no longer guarantees)
    pub stale_below: usize,
}

impl<T: Elem> Model<T> {
    fn new() -> Self {
        Self {
            items: vec![],
            stamp: 0,
            stored: 0,
            phys: vec![],
            stored_items: vec![],
            stored_uncertain: false,
            unknown_phys: BTreeSet::new(),
            epoch: 0,
            chain: vec![Snap {
                items: vec![],
                stamp: 0,
                truncating: false,
            }],
            records: BTreeMap::new(),
            commits_done: 0,
            uncommitted: false,
            tainted: false,
            truncated_since_commit: false,
            damaged: BTreeSet::new(),
            undone_trunc: false,
            stale_below: 0,
        }
    }
    pub fn holes(&self) -> Vec<usize> {
        self.items
            .iter()
            .enumerate()
            .filter(|(_, v)| v.is_none())
            .map(|(i, _)| i)
            .collect()
    }
    pub fn dense(&self) -> Vec<T> {
        self.items.iter().flatten().copied().collect()
    }
    fn value(&self, index: usize) -> T {
        T::make(1 + index as u64 * 3 + (self.epoch % 5) * 100_003)
    }
    fn upd_value(&self, index: usize) -> T {
        T::make(7_000_000 + index as u64 * 5 + (self.epoch % 5) * 11)
    }
    fn written(&mut self) {
        self.stored = self.items.len();
        self.stored_items = self.phys.clone();
        self.stored_uncertain = !self.unknown_phys.is_empty();
        self.undone_trunc = false;
    }
    fn set(&mut self, i: usize, v: T) {
        if i == self.items.len() {
            self.items.push(Some(v));
            self.phys.push(v);
        } else {
            self.items[i] = Some(v);
            self.phys[i] = v;
        }
        self.unknown_phys.remove(&i);
    }
    fn cut(&mut self, i: usize) {
        if i < self.items.len() {
            self.items.truncate(i);
            self.phys.truncate(i);
            self.unknown_phys.retain(|&k| k < i);
            if i < self.stored {
                self.stored = i;
                self.stored_items.truncate(i);
            }
        }
    }
    fn snap(&self) -> Snap<T> {
        Snap {
            items: self.items.clone(),
            stamp: self.stamp,
            truncating: self.truncated_since_commit,
        }
    }
    fn restore(&mut self, s: &Snap<T>) {
        self.items = s.items.clone();
        // physical values of deleted slots are unknown after a rollback
        self.phys = s.items.iter().map(|v| v.unwrap_or_default()).collect();
        self.stamp = s.stamp;
        self.stored_uncertain = true;
        self.unknown_phys = s.items.iter().enumerate().filter(|(_, v)| v.is_none()).map(|(i, _)| i).collect();
    }
}

pub struct VecSys<V: Subject>
where
    V::T: Elem,
{
    dir: PathBuf,
    db: Option<Database>,
    vec: Option<V>,
    pub model: Model<V::T>,
    counters: BTreeMap<&'static str, u64>,
    _p: PhantomData<V>,
}

fn evariant(e: &Error) -> String {
    let s = format!("{e:?}");
    let v = s.split([' ', '(', '{']).next().unwrap_or("").to_string();
    if v == "RawDB" {
        let inner = s.trim_start_matches("RawDB(");
        format!(
            "RawDB:{}",
            inner.split([' ', '(', '{', ')']).next().unwrap_or("")
        )
    } else {
        v
    }
}

impl<V: Subject> VecSys<V>
where
    V::T: Elem,
{
    fn vec(&self) -> &V {
        self.vec.as_ref().unwrap()
    }
    fn vec_mut(&mut self) -> &mut V {
        self.vec.as_mut().unwrap()
    }
    fn db(&self) -> &Database {
        self.db.as_ref().unwrap()
    }
    fn bump(&mut self, k: &'static str) {
        *self.counters.entry(k).or_default() += 1;
    }

    pub fn page_cap() -> usize {
        16 * 1024 / size_of::<V::T>()
    }

    fn resolve(&self, ix: Ix) -> Option<usize> {
        let len = self.model.items.len();
        let st = self.model.stored;
        let p = Self::page_cap();
        match ix {
            Ix::Zero => Some(0),
            Ix::One => Some(1),
            Ix::StoredM1 => st.checked_sub(1),
            Ix::Stored => Some(st),
            Ix::StoredP1 => Some(st + 1),
            Ix::PageM1 => Some(p - 1),
            Ix::Page => Some(p),
            Ix::LenM1 => len.checked_sub(1),
            Ix::Len => Some(len),
            Ix::LenP1 => Some(len + 1),
            Ix::Hole => self.model.holes().first().copied(),
        }
    }

    fn changes_dir(&self) -> PathBuf {
        self.dir
            .join("changes")
            .join(format!("{VEC_NAME}/usize"))
    }

    fn list_changes(&self) -> Vec<(u64, Vec<u8>)> {
        let mut out = Vec::new();
        if let Ok(rd) = fs::read_dir(self.changes_dir()) {
            for e in rd.flatten() {
                if let Some(s) = e
                    .file_name()
                    .to_str()
                    .and_then(|n| n.parse::<u64>().ok())
                {
                    out.push((s, fs::read(e.path()).unwrap_or_default()));
                }
            }
        }
        out.sort();
        out
    }

    fn reimport(&mut self) -> vecdb::Result<()> {
        let retention = self.retention();
        self.vec_mut().flush()?;
        self.db().flush()?;
        self.vec = None;
        self.db = None;
        let db = Database::open(&self.dir)?;
        let v = V::s_import(&db, retention)?;
        self.db = Some(db);
        self.vec = Some(v);
        Ok(())
    }

    fn retention(&self) -> u16 {
        self.vec.as_ref().map_or(0, |v| v.saved_stamped_changes())
    }

    /// Executes the real operation; returns Ok(observation) or Err(variant).
    fn exec(&mut self, op: &VecOp) -> Result<String, String> {
        let e = |err: Error| evariant(&err);
        match op {
            VecOp::Push(k) => {
                let base = self.model.items.len();
                for j in 0..*k {
                    let v = self.model.value(base + j);
                    self.vec_mut().push(v);
                }
                Ok(String::new())
            }
            VecOp::Truncate(ix) => {
                let i = self.resolve(*ix).unwrap();
                self.vec_mut().truncate_if_needed_at(i).map_err(e)?;
                Ok(String::new())
            }
            VecOp::Write => self.vec_mut().write().map(|_| String::new()).map_err(e),
            VecOp::Flush => {
                self.vec_mut().flush().map_err(e)?;
                self.db().flush().map_err(|x| e(x.into()))?;
                Ok(String::new())
            }
            VecOp::StampedWrite(d) => {
                let s = self.model.stamp + d;
                self.vec_mut()
                    .stamped_write(Stamp::new(s))
                    .map(|_| String::new())
                    .map_err(e)
            }
            VecOp::Reset => self.vec_mut().reset().map(|_| String::new()).map_err(e),
            VecOp::Reimport => self.reimport().map(|_| String::new()).map_err(e),
            VecOp::Update(ix) => {
                let i = self.resolve(*ix).unwrap();
                let v = self.model.upd_value(i);
                self.vec_mut()
                    .s_update_at(i, v)
                    .map(|_| String::new())
                    .map_err(e)
            }
            VecOp::Delete(ix) => {
                let i = self.resolve(*ix).unwrap();
                self.vec_mut().s_delete_at(i);
                Ok(String::new())
            }
            VecOp::Take(ix) => {
                let i = self.resolve(*ix).unwrap();
                self.vec_mut()
                    .s_take_at(i)
                    .map(|v| format!("{v:?}"))
                    .map_err(e)
            }
            VecOp::Fill => {
                let target = self
                    .model
                    .holes()
                    .first()
                    .copied()
                    .unwrap_or(self.model.items.len());
                let v = self.model.upd_value(target);
                self.vec_mut()
                    .s_fill(v)
                    .map(|i| format!("{i}"))
                    .map_err(e)
            }
            VecOp::CheckedPushWrong => {
                let len = self.model.items.len();
                let v = self.model.value(len + 1);
                self.vec_mut()
                    .checked_push_at(len + 1, v)
                    .map(|_| String::new())
                    .map_err(e)
            }
            VecOp::UpdateBeyond => {
                let len = self.model.items.len();
                let v = self.model.upd_value(len);
                self.vec_mut()
                    .s_update_at(len, v)
                    .map(|_| String::new())
                    .map_err(e)
            }
            VecOp::ImportWrongVersion => {
                let db = self.db().clone();
                match V::import(&db, VEC_NAME, Version::TWO) {
                    Ok(_) => Ok("imported".into()),
                    Err(x) => Err(e(x)),
                }
            }
            VecOp::ImportWrongFormat => {
                let db = self.db().clone();
                let r = if V::COMPRESSED {
                    BytesVec::<usize, V::T>::import(&db, VEC_NAME, VERSION).map(|_| ())
                } else {
                    LZ4Vec::<usize, V::T>::import(&db, VEC_NAME, VERSION).map(|_| ())
                };
                match r {
                    Ok(_) => Ok("imported".into()),
                    Err(x) => Err(e(x)),
                }
            }
            VecOp::Commit(d) => {
                let s = self.model.stamp + d;
                self.vec_mut()
                    .stamped_write_with_changes(Stamp::new(s))
                    .map(|_| String::new())
                    .map_err(e)
            }
            VecOp::Rollback => self.vec_mut().rollback().map(|_| String::new()).map_err(e),
            VecOp::RollbackBefore(d) => {
                let target = (self.model.stamp + 1).saturating_sub(*d);
                self.vec_mut()
                    .rollback_before(Stamp::new(target))
                    .map(|s| format!("{}", u64::from(s)))
                    .map_err(e)
            }
            VecOp::FaultDeleteThenRollback => {
                let p = self.changes_dir().join(self.model.stamp.to_string());
                let _ = fs::remove_file(p);
                self.vec_mut().rollback().map(|_| String::new()).map_err(e)
            }
            VecOp::FaultTruncateThenRollback(at) => {
                let p = self.changes_dir().join(self.model.stamp.to_string());
                if let Ok(b) = fs::read(&p) {
                    let at = (*at).min(b.len().saturating_sub(1));
                    let _ = fs::write(&p, &b[..at]);
                }
                self.vec_mut().rollback().map(|_| String::new()).map_err(e)
            }
            VecOp::FaultLenFieldThenRollback(field, val) => {
                let p = self.changes_dir().join(self.model.stamp.to_string());
                if let Ok(mut b) = fs::read(&p) {
                    // walk the record to find its length fields (an arbitrary 8-byte
                    // window may be value data, whose damage nothing could detect)
                    let sz = size_of::<V::T>();
                    let rd = |b: &[u8], o: usize| -> Option<usize> {
                        b.get(o..o + 8)
                            .map(|s| u64::from_le_bytes(s.try_into().unwrap()) as usize)
                    };
                    let mut fields = vec![8usize, 24];
                    let walk = || -> Option<()> {
                        let mut o = 24;
                        let truncated = rd(&b, o)?;
                        o += 8 + truncated.checked_mul(sz)?;
                        fields.push(o); // prev_pushed_len
                        let n = rd(&b, o)?;
                        o += 8 + n.checked_mul(sz)?;
                        fields.push(o); // pushed_len
                        let n = rd(&b, o)?;
                        o += 8 + n.checked_mul(sz)?;
                        if V::RAW {
                            fields.push(o); // modified_len
                            let n = rd(&b, o)?;
                            o += 8 + n.checked_mul(8 + sz)?;
                            fields.push(o); // prev_holes_len
                        }
                        Some(())
                    };
                    let mut walk = walk;
                    let _ = walk();
                    if let Some(&off) = fields.get(*field) {
                        if off + 8 <= b.len() {
                            b[off..off + 8].copy_from_slice(&val.to_le_bytes());
                            let _ = fs::write(&p, &b);
                        }
                    }
                }
                self.vec_mut().rollback().map(|_| String::new()).map_err(e)
            }
        }
    }
}


// ---------------------------------------------------------------------------------------
// model transitions
// ---------------------------------------------------------------------------------------

impl<V: Subject> VecSys<V>
where
    V::T: Elem,
{
    /// Expected outcome (Ok(observation) / Err(variant)) and model update.
    fn model_apply(&mut self, cfg: &VecCfg, op: &VecOp, ix: Option<usize>) -> Result<String, &'static str> {
        let k = cfg.retention as usize;
        let m = &mut self.model;
        let len = m.items.len();
        match op {
            VecOp::Push(n) => {
                for j in 0..*n {
                    let v = m.value(len + j);
                    m.set(len + j, v);
                }
                m.uncommitted = true;
                Ok(String::new())
            }
            VecOp::Truncate(_) => {
                let i = ix.unwrap();
                if i < len {
                    m.cut(i);
                    m.epoch += 1;
                    m.uncommitted = true;
                    m.truncated_since_commit = true;
                }
                Ok(String::new())
            }
            VecOp::Write | VecOp::Flush => {
                if m.uncommitted && k > 0 {
                    m.tainted = true;
                }
                m.written();
                Ok(String::new())
            }
            VecOp::StampedWrite(d) => {
                m.stamp += d;
                if m.uncommitted && k > 0 {
                    m.tainted = true;
                } else if let Some(base) = m.chain.last_mut() {
                    // an unstamped-change write from a committed state only moves the stamp
                    // of the baseline the next change record refers to
                    base.stamp = m.stamp;
                }
                m.written();
                Ok(String::new())
            }
            VecOp::Reset => {
                let epoch = m.epoch + 1;
                *m = Model::new();
                m.epoch = epoch;
                Ok(String::new())
            }
            VecOp::Reimport => {
                if m.uncommitted && k > 0 {
                    m.tainted = true;
                }
                m.written();
                Ok(String::new())
            }
            VecOp::Update(_) => {
                let i = ix.unwrap();
                if i < len {
                    let v = m.upd_value(i);
                    m.set(i, v);
                    m.uncommitted = true;
                    Ok(String::new())
                } else {
                    Err("IndexTooHigh")
                }
            }
            VecOp::Delete(_) => {
                let i = ix.unwrap();
                if i < len {
                    m.items[i] = None;
                    m.uncommitted = true;
                    if m.stored_uncertain {
                        m.unknown_phys.insert(i);
                    }
                }
                Ok(String::new())
            }
            VecOp::Take(_) => {
                let i = ix.unwrap();
                let got = m.items.get(i).copied().flatten();
                if got.is_some() {
                    m.items[i] = None;
                    m.uncommitted = true;
                    if m.stored_uncertain {
                        m.unknown_phys.insert(i);
                    }
                }
                Ok(format!("{got:?}"))
            }
            VecOp::Fill => {
                let target = m.holes().first().copied().unwrap_or(len);
                let v = m.upd_value(target);
                m.set(target, v);
                m.uncommitted = true;
                Ok(format!("{target}"))
            }
            VecOp::CheckedPushWrong => Err("UnexpectedIndex"),
            VecOp::UpdateBeyond => Err("IndexTooHigh"),
            VecOp::ImportWrongVersion => Err("DifferentVersion"),
            // version is compared before format, and the raw and compressed families add
            // different layer versions: either refusal variant is fine
            VecOp::ImportWrongFormat => Err("Different"),
            VecOp::Commit(d) => {
                let s = m.stamp + d;
                if k > 0 {
                    let base = m.chain.last().cloned().unwrap();
                    // records at or above the new stamp, and records above the stamp this
                    // commit starts from (commits that were rolled back), are an abandoned
                    // future: they neither count towards retention nor take part in later
                    // rollbacks
                    let from = m.stamp;
                    m.records.retain(|st, _| *st < s && *st <= from);
                    m.damaged.retain(|st| *st < s && *st <= from);
                    while m.records.len() > k - 1 {
                        let first = *m.records.keys().next().unwrap();
                        m.records.remove(&first);
                    }
                    m.records.insert(s, base);
                }
                m.stamp = s;
                m.written();
                let snap = m.snap();
                m.chain.push(snap);
                m.commits_done += 1;
                m.uncommitted = false;
                m.truncated_since_commit = false;
                Ok(String::new())
            }
            VecOp::Rollback
            | VecOp::FaultDeleteThenRollback
            | VecOp::FaultTruncateThenRollback(_)
            | VecOp::FaultLenFieldThenRollback(..) => {
                if matches!(op, VecOp::FaultDeleteThenRollback) {
                    let st = m.stamp;
                    m.records.remove(&st);
                }
                let Some(target) = m.records.get(&m.stamp).cloned() else {
                    return Err("IO");
                };
                let damaging = matches!(
                    op,
                    VecOp::FaultTruncateThenRollback(_) | VecOp::FaultLenFieldThenRollback(..)
                );
                if damaging {
                    let st = m.stamp;
                    m.damaged.insert(st);
                }
                if damaging || m.damaged.contains(&m.stamp) {
                    // damaged record: an error with no effect is expected; a success is
                    // tolerated only if it lands exactly on the record's true target
                    return Err("?damaged");
                }
                m.restore(&target);
                if m.chain.len() > 1 {
                    if m.chain.pop().is_some_and(|s| s.truncating) {
                        m.undone_trunc = true;
                        m.stale_below = m.stale_below.max(m.chain.len());
                    }
                }
                m.uncommitted = false;
                m.truncated_since_commit = false;
                Ok(String::new())
            }
            VecOp::RollbackBefore(d) => {
                let t = (m.stamp + 1).saturating_sub(*d);
                // Walk the records at or below the starting stamp, newest first, while the
                // current stamp is >= t. The next record must be the one of the current stamp;
                // any other record there (an older one = a hole in the chain, or a leftover of
                // a rolled-back commit with a stamp between two live ones) means the chain
                // cannot be trusted: refused, the vector stays on the committed state reached
                // so far (C16: "refuses rather than guesses"). No record left: the retention
                // window ends here and the call stops on the oldest reachable state (C04).
                let mut progressed = false;
                let mut bound = m.stamp + 1;
                loop {
                    if m.stamp < t {
                        break;
                    }
                    let Some((&next, _)) = m.records.range(..bound).next_back() else {
                        break;
                    };
                    if next != m.stamp {
                        if progressed {
                            m.uncommitted = false;
                            m.truncated_since_commit = false;
                        }
                        return Err("StampMismatch");
                    }
                    let target = m.records[&next].clone();
                    bound = next;
                    m.restore(&target);
                    progressed = true;
                    if m.chain.len() > 1 {
                        if m.chain.pop().is_some_and(|s| s.truncating) {
                            m.undone_trunc = true;
                            m.stale_below = m.stale_below.max(m.chain.len());
                        }
                    }
                }
                if progressed || !m.uncommitted {
                    m.uncommitted = false;
                    m.truncated_since_commit = false;
                }
                Ok(format!("{}", m.stamp))
            }
        }
    }

    /// Situation class of the pre-state (and, for rollbacks, of the undo path).
    fn situation(&self, op: &VecOp) -> String {
        let v = self.vec();
        let mut s = String::new();
        let m = &self.model;
        // how many commits would this op undo, and does the path cross a truncating commit
        // before its last step (then the bytes on disk belong to an undone future)
        let n_undo = match op {
            VecOp::Rollback => usize::from(m.records.contains_key(&m.stamp)),
            VecOp::RollbackBefore(d) => {
                let t = (m.stamp + 1).saturating_sub(*d);
                let mut n = 0;
                let mut idx = m.chain.len() - 1;
                let mut stamp = m.stamp;
                while stamp >= t && m.records.contains_key(&stamp) && idx > 0 {
                    n += 1;
                    idx -= 1;
                    stamp = m.chain[idx].stamp;
                }
                n
            }
            _ => 0,
        };
        if n_undo >= 2 {
            s.push_str("undoN;");
        }
        let path_trunc = n_undo >= 2
            && m.chain[m.chain.len() - (n_undo - 1)..]
                .iter()
                .any(|c| c.truncating);
        // the rollback consumes the records of chain entries L-n_undo .. L-1
        let uses_stale = n_undo >= 1 && m.chain.len() - n_undo.min(m.chain.len()) < m.stale_below;
        if m.undone_trunc || path_trunc || uses_stale {
            s.push_str("chain_over_trunc;");
        }
        let stored = v.stored_len();
        let real = guarded(|| v.real_stored_len()).unwrap_or(usize::MAX);
        if v.pushed_len() > 0 {
            s.push_str("pushed;");
        }
        if stored > 0 {
            s.push_str("stored;");
        }
        if stored < real {
            s.push_str("truncated_below_disk;");
        }
        if stored > real {
            s.push_str("logical_beyond_disk;");
        }
        if !self.model.holes().is_empty() {
            s.push_str("holes;");
        }
        if self.model.stored_uncertain {
            s.push_str("after_rollback;");
        }
        s
    }

    fn observe(&self) -> Result<(usize, Vec<Option<V::T>>, Vec<usize>, u64), String> {
        guarded(|| {
            let v = self.vec();
            let len = v.len();
            let items = v
                .s_collect_holed()
                .map_err(|e| format!("collect error {}", evariant(&e)));
            let holes = v.s_holes();
            let stamp = u64::from(v.stamp());
            (len, items, holes, stamp)
        })
        .and_then(|(len, items, holes, stamp)| items.map(|i| (len, i, holes, stamp)))
    }

    fn region_dump(&self) -> Vec<u8> {
        let mut out = Vec::new();
        let db = self.db();
        let names = [
            format!("{VEC_NAME}/usize"),
            format!("{VEC_NAME}/usize_pages"),
            format!("{VEC_NAME}/usize_holes"),
        ];
        for n in names {
            if let Some(r) = db.get_region(&n) {
                let m = r.meta();
                out.extend_from_slice(
                    format!("{n}:{}:{}:{}:{};", m.start(), m.len(), m.reserved(), m.verif_state())
                        .as_bytes(),
                );
                drop(m);
                let bytes = r.create_reader().read_all().to_vec();
                out.extend_from_slice(&hash128(&bytes).to_le_bytes());
            } else {
                out.extend_from_slice(format!("{n}:absent;").as_bytes());
            }
        }
        for (s, b) in self.list_changes() {
            out.extend_from_slice(format!("chg{s}:").as_bytes());
            out.extend_from_slice(&hash128(&b).to_le_bytes());
        }
        out
    }

    /// C07: the on-disk page index, parsed independently of the library.
    fn page_index_problems(&self, after_write: bool) -> Vec<(String, String)> {
        let mut out = Vec::new();
        let db = self.db();
        let Some(pr) = db.get_region(&format!("{VEC_NAME}/usize_pages")) else {
            out.push(("pages_region_missing".into(), String::new()));
            return out;
        };
        let Some(dr) = db.get_region(&format!("{VEC_NAME}/usize")) else {
            out.push(("data_region_missing".into(), String::new()));
            return out;
        };
        let pbytes = pr.create_reader().read_all().to_vec();
        let dlen = dr.meta().len();
        if pbytes.len() % 16 != 0 {
            out.push((
                "pages_region_len".into(),
                format!("{} not a multiple of 16", pbytes.len()),
            ));
            return out;
        }
        let per_page = Self::page_cap();
        let pages: Vec<(u64, u32, u32, bool)> = pbytes
            .chunks(16)
            .map(|c| {
                let start = u64::from_le_bytes(c[0..8].try_into().unwrap());
                let bytes = u32::from_le_bytes(c[8..12].try_into().unwrap());
                let vals = u32::from_le_bytes(c[12..16].try_into().unwrap());
                (start, bytes, vals & 0x7fff_ffff, vals & 0x8000_0000 != 0)
            })
            .collect();
        let v = self.vec();
        let stored = v.stored_len();
        let real = v.real_stored_len();
        // The index on disk describes the stored layer only once it has been written:
        // compare when the vector has no pending truncation.
        let mut pos = vecdb::HEADER_OFFSET as u64;
        let mut total = 0usize;
        for (i, (start, bytes, vals, raw)) in pages.iter().enumerate() {
            let last = i + 1 == pages.len();
            if *start != pos {
                out.push((
                    "page_gap".into(),
                    format!("page {i} starts at {start}, expected {pos}"),
                ));
            }
            pos = start + *bytes as u64;
            if !last && (*vals as usize != per_page) {
                out.push((
                    "inner_page_not_full".into(),
                    format!("page {i} holds {vals} of {per_page}"),
                ));
            }
            if !last && *raw {
                out.push(("inner_page_raw".into(), format!("page {i}")));
            }
            if *vals as usize > per_page || *vals == 0 {
                out.push(("page_value_count".into(), format!("page {i}: {vals}")));
            }
            if *raw && *bytes as usize != *vals as usize * size_of::<V::T>() {
                out.push((
                    "raw_page_bytes".into(),
                    format!("page {i}: {bytes} bytes for {vals} values"),
                ));
            }
            total += *vals as usize;
        }
        if after_write && total != real {
            out.push((
                "page_counts_vs_real_stored_len".into(),
                format!("sum {total}, real_stored_len {real}"),
            ));
        }
        if after_write && stored == real {
            if pos != dlen as u64 {
                out.push((
                    "data_region_end".into(),
                    format!("last page ends at {pos}, data region length {dlen}"),
                ));
            }
            if total != stored {
                out.push((
                    "page_counts_vs_stored_len".into(),
                    format!("sum {total}, stored_len {stored}"),
                ));
            }
        }
        out
    }
}

// ---------------------------------------------------------------------------------------
// Sys
// ---------------------------------------------------------------------------------------

impl<V: Subject> Sys for VecSys<V>
where
    V::T: Elem,
{
    type Op = VecOp;
    type Cfg = VecCfg;

    fn init(cfg: &VecCfg, dir: &Path) -> Self {
        tap::ensure_installed();
        let db = Database::open(dir).expect("open");
        let vec = V::s_import(&db, cfg.retention).expect("import");
        let mut this = Self {
            dir: dir.to_path_buf(),
            db: Some(db),
            vec: Some(vec),
            model: Model::new(),
            counters: BTreeMap::new(),
            _p: PhantomData,
        };
        for op in &cfg.prefill {
            this.apply(cfg, op, false);
        }
        this
    }

    fn ops(&self, cfg: &VecCfg) -> Vec<VecOp> {
        let mut v = Vec::new();
        let m = &self.model;
        let len = m.items.len();
        let rollback_profile = cfg.has("commit");
        let clean = !m.uncommitted;
        if cfg.has("push") {
            for &k in &cfg.pushes {
                if len + k <= cfg.max_len {
                    v.push(VecOp::Push(k));
                }
            }
        }
        // distinct resolved indices only (several classes often coincide)
        let mut seen_ix = BTreeSet::new();
        let mut ixs: Vec<(Ix, usize)> = Vec::new();
        for &ix in &cfg.ixs {
            if let Some(i) = self.resolve(ix) {
                if seen_ix.insert(i) {
                    ixs.push((ix, i));
                }
            }
        }
        if cfg.has("truncate") {
            for &(ix, i) in &ixs {
                if i < len {
                    v.push(VecOp::Truncate(ix));
                } else if i == len + 1 && cfg.has("noop_truncate") {
                    v.push(VecOp::Truncate(ix));
                }
            }
        }
        if V::RAW {
            for &(ix, i) in &ixs {
                if i < len {
                    if cfg.has("update") {
                        v.push(VecOp::Update(ix));
                    }
                    if cfg.has("delete") {
                        v.push(VecOp::Delete(ix));
                    }
                    if cfg.has("take") {
                        v.push(VecOp::Take(ix));
                    }
                }
            }
            if cfg.has("take") {
                v.push(VecOp::Take(Ix::LenP1));
            }
            if cfg.has("fill") {
                v.push(VecOp::Fill);
            }
            if cfg.has("refused") {
                v.push(VecOp::UpdateBeyond);
            }
        }
        if cfg.has("refused") {
            v.push(VecOp::CheckedPushWrong);
            v.push(VecOp::ImportWrongVersion);
            v.push(VecOp::ImportWrongFormat);
        }
        // In rollback profiles unstamped writes / re-imports are issued from clean states
        // only (DESIGN 5/C04: what the statement covers).
        if !rollback_profile || clean {
            if cfg.has("write") {
                v.push(VecOp::Write);
            }
            if cfg.has("flush") {
                v.push(VecOp::Flush);
            }
            if cfg.has("reimport") {
                v.push(VecOp::Reimport);
            }
        }
        if cfg.has("stamped_write") && !rollback_profile {
            v.push(VecOp::StampedWrite(1));
        }
        if cfg.has("stamped_write_rb") && rollback_profile && clean && !m.tainted {
            v.push(VecOp::StampedWrite(1));
        }
        // refused rollbacks with pending edits (C13): only where the model predicts a refusal
        if cfg.has("rollback_dirty") && rollback_profile && !clean && !m.tainted {
            if !m.records.contains_key(&m.stamp) {
                v.push(VecOp::Rollback);
                v.push(VecOp::RollbackBefore(1));
                v.push(VecOp::RollbackBefore(1000));
            }
        }
        if cfg.has("reset") {
            v.push(VecOp::Reset);
        }
        if rollback_profile && !m.tainted {
            if m.commits_done < cfg.max_commits {
                for &d in &cfg.commit_deltas {
                    v.push(VecOp::Commit(d));
                }
            }
            if clean {
                if cfg.has("rollback") {
                    v.push(VecOp::Rollback);
                }
                if cfg.has("rollback_before") && m.damaged.is_empty() {
                    for d in [1u64, 2, 3, 1000] {
                        if d <= m.stamp + 1 || d == 1000 {
                            v.push(VecOp::RollbackBefore(d));
                        }
                    }
                }
                if cfg.has("faults") && m.records.contains_key(&m.stamp) {
                    v.push(VecOp::FaultDeleteThenRollback);
                    let rec_len = self
                        .list_changes()
                        .iter()
                        .find(|(s, _)| *s == m.stamp)
                        .map_or(0, |(_, b)| b.len());
                    let step = if cfg.has("faults_every_offset") { 1 } else { 8 };
                    let mut at = 0;
                    while at < rec_len {
                        v.push(VecOp::FaultTruncateThenRollback(at));
                        at += step;
                    }
                    if rec_len > 0 {
                        v.push(VecOp::FaultTruncateThenRollback(rec_len - 1));
                    }
                    for field in 0usize..6 {
                        for val in [1u64 << 32, 1u64 << 63, u64::MAX, 1_000_003] {
                            v.push(VecOp::FaultLenFieldThenRollback(field, val));
                        }
                    }
                }
            }
        }
        v
    }

    fn apply(&mut self, cfg: &VecCfg, op: &VecOp, check: bool) -> Step {
        let mut viols: Vec<Violation> = Vec::new();
        let kind = op.kind();
        let class = if V::RAW {
            "raw"
        } else if V::COMPRESSED {
            "compressed"
        } else {
            "eager_raw"
        };
        let ix = match op {
            VecOp::Truncate(ix) | VecOp::Update(ix) | VecOp::Delete(ix) | VecOp::Take(ix) => {
                self.resolve(*ix)
            }
            _ => None,
        };
        let situation = if check { self.situation(op) } else { String::new() };
        let pre_key = if check { Some(self.key()) } else { None };
        let pre_obs = if check { self.observe().ok() } else { None };
        let pre_changes = if check { self.list_changes() } else { vec![] };
        let pre_model = if check { Some(self.model.clone()) } else { None };
        let is_rollback_kind = matches!(
            op,
            VecOp::Commit(_)
                | VecOp::Rollback
                | VecOp::RollbackBefore(_)
                | VecOp::FaultDeleteThenRollback
                | VecOp::FaultTruncateThenRollback(_)
                | VecOp::FaultLenFieldThenRollback(..)
        );
        let is_fault = kind.starts_with("fault_");
        let content_prop: &str = if is_fault {
            "C16,C17"
        } else if is_rollback_kind {
            // a rollback that lands on something else than the committed snapshot
            "C04,C16"
        } else if self.model.stored_uncertain || self.model.commits_done > 0 {
            "C04"
        } else if V::COMPRESSED {
            "C03,C07"
        } else {
            "C03"
        };

        let pre_records_target = self.model.records.get(&self.model.stamp).cloned();
        let result = guarded(|| self.exec(op));
        let mut expected = self.model_apply(cfg, op, ix).map_err(|e| e.to_string());

        let sig = |div: &str| format!("{class}|{kind}|{situation}|{div}");

        let result = match result {
            Ok(r) => r,
            Err(panic) => {
                let loc = panic.split(": ").next().unwrap_or("?").to_string();
                viols.push(Violation {
                    property: if expected.is_err() {
                        if is_fault { "C16,C17".into() } else { "C13".into() }
                    } else {
                        content_prop.to_string()
                    },
                    signature: sig(&format!("panic:{loc}")),
                    detail: format!("panicked: {panic}"),
                });
                return Step {
                    obs: hash64(&("panic", kind)),
                    violations: viols,
                };
            }
        };
        // A damaged change record: error + no effect expected; success tolerated only if
        // it lands exactly on the record's true target.
        if matches!(&expected, Err(x) if x == "?damaged") {
            if result.is_ok() && matches!(op, VecOp::FaultTruncateThenRollback(_)) && check {
                // C16: a truncated change record is refused — even when the bytes that are
                // missing would not have been needed to undo the commit
                viols.push(Violation {
                    property: "C16,C17".into(),
                    signature: format!("{class}|{kind}|{situation}|truncated_record_accepted"),
                    detail: format!("rollback succeeded on a change record that was cut short ({op:?})"),
                });
            }
            if result.is_ok() {
                let target = pre_records_target.clone().unwrap();
                self.model.restore(&target);
                if self.model.chain.len() > 1 {
                    if self.model.chain.pop().is_some_and(|s| s.truncating) {
                        self.model.undone_trunc = true;
                        self.model.stale_below = self.model.stale_below.max(self.model.chain.len());
                    }
                }
                self.model.uncommitted = false;
                expected = Ok(String::new());
                self.bump(match op {
                    VecOp::FaultTruncateThenRollback(_) => "fault:immaterial_damage_accepted:truncated_record",
                    _ => "fault:immaterial_damage_accepted:length_field",
                });
            } else {
                expected = Err("*".into());
            }
        }

        if !check {
            return Step {
                obs: 0,
                violations: viols,
            };
        }
        let pre_model = pre_model.unwrap();

        // rollback_before when no change record exists at all: the statement does not say
        // whether that is "nothing to do" or an error; accept an error without effect.
        if matches!(op, VecOp::RollbackBefore(_)) && pre_model.records.is_empty() && result.is_err() {
            expected = Err("*".into());
        }

        // --- outcome
        match (&result, &expected) {
            (Ok(a), Ok(b)) => {
                if a != b {
                    viols.push(Violation {
                        property: content_prop.to_string(),
                        signature: sig("return_value"),
                        detail: format!("returned {a:?}, expected {b:?}"),
                    });
                }
            }
            (Err(e), Err(x)) => {
                if x != "*"
                    && e != x
                    && !(x == "IO" && e.starts_with("IO"))
                    && !(x == "Different" && e.starts_with("Different"))
                {
                    viols.push(Violation {
                        property: if is_fault { "C16,C17" } else if is_rollback_kind { "C16" } else { "C13" }.into(),
                        signature: sig(&format!("error_variant:{e}")),
                        detail: format!("expected error {x}, got {e}"),
                    });
                }
            }
            (Ok(_), Err(x)) => viols.push(Violation {
                property: if is_fault { "C16,C17" } else if is_rollback_kind { "C16" } else { "C13" }.into(),
                signature: sig("accepted"),
                detail: format!("request should have failed ({x}) but succeeded"),
            }),
            (Err(e), Ok(_)) => viols.push(Violation {
                property: content_prop.to_string(),
                signature: sig(&format!("error:{e}")),
                detail: format!("operation failed with {e}"),
            }),
        }

        // --- a refused / failed request has no effect (C13; C16 for rollbacks)
        // (a refused rollback_before may have made progress: it is compared with the model,
        // which stays on the committed state reached, not with the pre-state)
        let no_progress = self.model.stamp == pre_model.stamp && self.model.items == pre_model.items;
        if expected.is_err() && result.is_err() && (!matches!(op, VecOp::RollbackBefore(_)) || no_progress) {
            let prop = if is_fault { "C16,C17" } else if is_rollback_kind { "C13,C16" } else { "C13" };
            let now = self.observe().ok();
            if now != pre_obs {
                viols.push(Violation {
                    property: prop.into(),
                    signature: sig("contents_changed_after_error"),
                    detail: format!(
                        "observable state differs after a failed request: before {:?} after {:?}",
                        pre_obs.as_ref().map(|o| (o.0, &o.2, o.3)),
                        now.as_ref().map(|o| (o.0, &o.2, o.3))
                    ),
                });
            } else if !is_fault && Some(self.key()) != pre_key {
                viols.push(Violation {
                    property: prop.into(),
                    signature: sig("hidden_state_changed_after_error"),
                    detail: "internal state (buffers, stored length, regions or change records) differs after a failed request".into(),
                });
            }
        }

        // --- contents against the model
        match self.observe() {
            Err(p) => viols.push(Violation {
                property: content_prop.to_string(),
                signature: sig(&format!(
                    "observe_panic:{}",
                    p.split(": ").next().unwrap_or("?")
                )),
                detail: p,
            }),
            Ok((len, items, holes, stamp)) => {
                let m = &self.model;
                if len != m.items.len() {
                    viols.push(Violation {
                        property: content_prop.to_string(),
                        signature: sig("len"),
                        detail: format!("len {len}, expected {}", m.items.len()),
                    });
                } else if items != m.items {
                    let first = items
                        .iter()
                        .zip(m.items.iter())
                        .position(|(a, b)| a != b)
                        .unwrap_or(items.len().min(m.items.len()));
                    let kind_of = match (items.get(first), m.items.get(first)) {
                        (Some(None), Some(Some(_))) => "unexpectedly_deleted",
                        (Some(Some(_)), Some(None)) => "deleted_slot_visible",
                        _ => "element",
                    };
                    viols.push(Violation {
                        property: content_prop.to_string(),
                        signature: sig(kind_of),
                        detail: format!(
                            "first difference at index {first}: got {:?}, expected {:?} (len {len})",
                            items.get(first),
                            m.items.get(first)
                        ),
                    });
                }
                if V::RAW && holes != m.holes() {
                    viols.push(Violation {
                        property: content_prop.to_string(),
                        signature: sig("holes"),
                        detail: format!("holes {holes:?}, expected {:?}", m.holes()),
                    });
                }
                if stamp != m.stamp {
                    viols.push(Violation {
                        property: content_prop.to_string(),
                        signature: sig("stamp"),
                        detail: format!("stamp {stamp}, expected {}", m.stamp),
                    });
                }
            }
        }

        // --- C16: retention of change records
        if matches!(op, VecOp::Commit(_)) && result.is_ok() {
            let k = cfg.retention as usize;
            let files: Vec<u64> = self.list_changes().iter().map(|(s, _)| *s).collect();
            if files.len() > k {
                viols.push(Violation {
                    property: "C16".into(),
                    signature: sig("too_many_records"),
                    detail: format!("{files:?} with retention {k}"),
                });
            }
            if files.iter().any(|s| *s > self.model.stamp) {
                viols.push(Violation {
                    property: "C16".into(),
                    signature: sig("future_record_kept"),
                    detail: format!("{files:?} after committing {}", self.model.stamp),
                });
            }
            let _ = &pre_changes;
        }

        // --- C07: page index well-formed
        if cfg.page_index && V::COMPRESSED {
            let after_write = result.is_ok()
                && matches!(
                    op,
                    VecOp::Write
                        | VecOp::Flush
                        | VecOp::StampedWrite(_)
                        | VecOp::Commit(_)
                        | VecOp::Reimport
                );
            match guarded(|| self.page_index_problems(after_write)) {
                Ok(ps) => {
                    for (k, d) in ps {
                        viols.push(Violation {
                            property: "C07".into(),
                            signature: sig(&k),
                            detail: d,
                        });
                    }
                }
                Err(p) => viols.push(Violation {
                    property: "C07".into(),
                    signature: sig("page_index_check_panic"),
                    detail: p,
                }),
            }
        }

        // --- C08 / C20: read battery
        if cfg.reads && viols.is_empty() {
            // the battery reads the state reached by this step: classify that state
            let post = self.situation(&VecOp::Write);
            let (mut vs, n_calls) =
                vecreads::battery::<V>(self.vec(), &self.model, class, &post, cfg.holed_cursor);
            *self.counters.entry("read_calls").or_default() += n_calls;
            viols.append(&mut vs);
        }

        // regime counters
        if V::COMPRESSED && matches!(op, VecOp::Write | VecOp::Flush | VecOp::Commit(_)) {
            let pm = &pre_model;
            let p = Self::page_cap();
            let pending = pm.items.len() - pm.stored.min(pm.items.len());
            let k = if pending == 0 && !situation.contains("truncated_below_disk") {
                "cwrite:nothing"
            } else if pm.stored % p != 0 && pm.stored % p + pending < p && !situation.contains("truncated_below_disk") {
                "cwrite:fast_raw_append"
            } else if pm.stored % p != 0 {
                "cwrite:reencode_partial_page"
            } else {
                "cwrite:fresh_pages"
            };
            self.bump(k);
        }

        let obs = hash64(&(format!("{result:?}"), self.observe().ok().map(|o| {
            (o.0, o.1.iter().map(|v| v.map(|x| x.bits())).collect::<Vec<_>>(), o.2, o.3)
        })));
        Step {
            obs,
            violations: viols,
        }
    }

    fn key(&self) -> Key {
        let mut bytes = format!("{:?}", self.vec()).into_bytes();
        bytes.extend_from_slice(&self.region_dump());
        let m = &self.model;
        bytes.extend_from_slice(
            format!(
                "|{}|{}|{}|{}|{:?}",
                m.epoch % 5,
                m.uncommitted,
                m.tainted,
                m.commits_done,
                (m.stored_uncertain, &m.unknown_phys, m.truncated_since_commit, m.undone_trunc, m.stale_below, &m.damaged)
            )
            .as_bytes(),
        );
        // the model's chain/records are functions of the history; two histories that reach
        // the same implementation state but different expectations must stay distinct
        let chain: Vec<(u64, u64)> = m
            .chain
            .iter()
            .map(|s| (s.stamp, hash64(&(s.truncating, s.items.iter().map(|v| v.map(|x| x.bits())).collect::<Vec<_>>()))))
            .collect();
        let recs: Vec<(u64, u64)> = m
            .records
            .iter()
            .map(|(k, s)| (*k, hash64(&(s.stamp, s.items.iter().map(|v| v.map(|x| x.bits())).collect::<Vec<_>>()))))
            .collect();
        bytes.extend_from_slice(format!("{chain:?}{recs:?}").as_bytes());
        hash128(&bytes)
    }

    fn take_counters(&mut self) -> Vec<(&'static str, u64)> {
        std::mem::take(&mut self.counters).into_iter().collect()
    }

    fn op_timeout_ms(cfg: &VecCfg) -> u64 {
        cfg.op_timeout_ms
    }

    fn abort_verdict(cfg: &VecCfg, op: &VecOp) -> (String, String) {
        if cfg.reads && !op.kind().starts_with("fault_") {
            let class = if V::RAW { "raw" } else if V::COMPRESSED { "compressed" } else { "eager_raw" };
            let holes = if matches!(op, VecOp::Delete(_) | VecOp::Take(_)) || cfg.holed_cursor {
                "holes;"
            } else {
                ""
            };
            return (
                "C08".into(),
                format!("{class}|read:?|{holes}|hang_or_abort"),
            );
        }
        let class = if V::RAW {
            "raw"
        } else if V::COMPRESSED {
            "compressed"
        } else {
            "eager_raw"
        };
        let kind = op.kind();
        let prop = if kind.starts_with("fault_") {
            "C16,C17"
        } else if matches!(op, VecOp::Commit(_) | VecOp::Rollback | VecOp::RollbackBefore(_)) {
            "C04"
        } else if V::COMPRESSED {
            "C03,C07"
        } else {
            "C03"
        };
        let detail = match op {
            VecOp::FaultLenFieldThenRollback(f, _) => format!("field{f}"),
            _ => String::new(),
        };
        (prop.into(), format!("{class}|{kind}|{detail}|process_abort"))
    }
}

impl<V: Subject> Drop for VecSys<V>
where
    V::T: Elem,
{
    fn drop(&mut self) {
        self.vec = None;
        self.db = None;
    }
}
