//! Profiles (alphabets + bounds) of the vecx engine per property and tier.

use std::{collections::BTreeSet, time::Duration};

use serde_json::json;
use vecdb::{BytesVec, EagerVec, LZ4Vec, PcoVec, ZeroCopyVec, ZstdVec};

use crate::{
    report::{KnownFindings, Run, absorb},
    scratch::Scratch,
    seqx::{self, Limits, Report, Sys},
    vecx::{Ix, Subject, VecCfg, VecOp, VecSys},
};

fn kinds(list: &[&'static str]) -> BTreeSet<&'static str> {
    list.iter().copied().collect()
}

const P32: usize = 4096; // page capacity for 4-byte elements

pub fn profile(name: &str) -> VecCfg {
    let base = VecCfg {
        label: name.to_string(),
        kinds: BTreeSet::new(),
        pushes: vec![],
        ixs: vec![],
        retention: 0,
        reads: false,
        page_index: false,
        max_len: 3 * P32,
        commit_deltas: vec![1],
        max_commits: 3,
        op_timeout_ms: 10_000,
        holed_cursor: false,
        prefill: vec![],
    };
    let mut c = match name {
        // raw formats: the whole editing alphabet
        "raw" => VecCfg {
            kinds: kinds(&[
                "push", "truncate", "write", "reset", "reimport", "update", "delete", "take",
                "fill",
            ]),
            pushes: vec![1, 3],
            ixs: vec![Ix::Zero, Ix::StoredM1, Ix::Stored, Ix::LenM1, Ix::Hole],
            max_len: 12,
            ..base
        },
        // stamped writes with and without pending data, and what a re-import then sees
        "stamps" => VecCfg {
            kinds: kinds(&["push", "write", "stamped_write", "reimport"]),
            pushes: vec![1],
            ixs: vec![],
            max_len: 6,
            ..base
        },
        "raw_full" => VecCfg {
            kinds: kinds(&[
                "push", "truncate", "noop_truncate", "write", "flush", "stamped_write", "reset",
                "reimport", "update", "delete", "take", "fill",
            ]),
            pushes: vec![1, 2, 7],
            ixs: vec![
                Ix::Zero, Ix::One, Ix::StoredM1, Ix::Stored, Ix::StoredP1, Ix::LenM1, Ix::LenP1,
                Ix::Hole,
            ],
            max_len: 24,
            ..base
        },
        // dense formats (compressed, eager wrappers)
        "dense" => VecCfg {
            kinds: kinds(&["push", "truncate", "write", "reset", "reimport"]),
            pushes: vec![1, P32 - 1, P32 + 1],
            ixs: vec![Ix::Zero, Ix::One, Ix::StoredM1, Ix::PageM1, Ix::Page, Ix::LenM1],
            ..base
        },
        "dense_full" => VecCfg {
            kinds: kinds(&[
                "push", "truncate", "noop_truncate", "write", "flush", "stamped_write", "reset",
                "reimport",
            ]),
            pushes: vec![1, 2, P32 - 1, P32, P32 + 1],
            ixs: vec![
                Ix::Zero, Ix::One, Ix::StoredM1, Ix::Stored, Ix::StoredP1, Ix::PageM1, Ix::Page,
                Ix::LenM1, Ix::LenP1,
            ],
            ..base
        },
        // refused requests in every reachable state
        "raw_refused" => VecCfg {
            kinds: kinds(&[
                "push", "truncate", "write", "reimport", "update", "delete", "refused",
            ]),
            pushes: vec![2],
            ixs: vec![Ix::Zero, Ix::StoredM1, Ix::LenM1],
            max_len: 8,
            ..base
        },
        "dense_refused" => VecCfg {
            kinds: kinds(&["push", "truncate", "write", "reimport", "refused"]),
            pushes: vec![2, P32],
            ixs: vec![Ix::Zero, Ix::StoredM1, Ix::LenM1],
            ..base
        },
        // commit / rollback
        "rb_raw" => VecCfg {
            kinds: kinds(&[
                "push", "truncate", "update", "delete", "commit", "rollback", "rollback_before",
                "write", "reimport",
            ]),
            pushes: vec![2],
            ixs: vec![Ix::Zero, Ix::StoredM1, Ix::LenM1],
            retention: 10,
            max_len: 10,
            max_commits: 3,
            ..base
        },
        // commit / rollback chains with skipped and re-used stamps, hardly any editing
        "rb_stamps" => VecCfg {
            kinds: kinds(&["push", "commit", "rollback", "rollback_before"]),
            pushes: vec![2],
            ixs: vec![],
            retention: 10,
            max_len: 10,
            max_commits: 4,
            commit_deltas: vec![1, 2],
            ..base
        },
        // refused rollbacks (no usable record for the current stamp) in clean and dirty states
        "rb_refused" => VecCfg {
            kinds: kinds(&[
                "push", "truncate", "commit", "rollback", "rollback_before", "stamped_write_rb",
                "rollback_dirty",
            ]),
            pushes: vec![2],
            ixs: vec![Ix::Zero, Ix::LenM1],
            retention: 2,
            max_len: 8,
            max_commits: 3,
            ..base
        },
        "rb_dense" => VecCfg {
            kinds: kinds(&[
                "push", "truncate", "commit", "rollback", "rollback_before", "write", "reimport",
            ]),
            pushes: vec![2, P32],
            ixs: vec![Ix::Zero, Ix::StoredM1, Ix::LenM1, Ix::PageM1],
            retention: 10,
            max_commits: 3,
            ..base
        },
        _ => panic!("unknown vecx profile {name}"),
    };
    c.label = name.to_string();
    c
}

/// Profile modifiers appended with '+': "+k2" retention 2, "+skip" also commit(stamp+2),
/// "+faults", "+reads", "+pidx", "+c4" four commits.
pub fn profile_spec(spec: &str) -> VecCfg {
    let mut parts = spec.split('+');
    let mut c = profile(parts.next().unwrap());
    for m in parts {
        match m {
            "skip" => c.commit_deltas = vec![1, 2],
            "faults" => {
                c.kinds.insert("faults");
            }
            "faults_all" => {
                c.kinds.insert("faults");
                c.kinds.insert("faults_every_offset");
            }
            "reads" => c.reads = true,
            // non-initial start states
            "pre_w3" => c.prefill = vec![VecOp::Push(3), VecOp::Write],
            "pre_pm1" => c.prefill = vec![VecOp::Push(P32 - 1), VecOp::Write],
            "pre_p1" => c.prefill = vec![VecOp::Push(P32 + 1), VecOp::Write],
            "pre_c2" => {
                c.prefill = vec![VecOp::Push(2), VecOp::Commit(1), VecOp::Push(2), VecOp::Commit(1)]
            }
            // three written values of which the first and the last are deleted
            "pre_h2" => c.prefill = vec![VecOp::Push(3), VecOp::Delete(Ix::Zero), VecOp::Delete(Ix::LenM1), VecOp::Write],
            // two commits, then a commit that deletes the first slot
            "pre_c2h" => {
                c.prefill = vec![
                    VecOp::Push(2),
                    VecOp::Commit(1),
                    VecOp::Push(2),
                    VecOp::Commit(1),
                    VecOp::Delete(Ix::Zero),
                    VecOp::Commit(1),
                ]
            }
            "holecursor" => {
                c.reads = true;
                c.holed_cursor = true;
                c.op_timeout_ms = 800;
            }
            "pidx" => c.page_index = true,
            "c2" => c.max_commits = 2,
            "c4" => c.max_commits = 4,
            "c5" => c.max_commits = 5,
            k if k.starts_with('k') => c.retention = k[1..].parse().expect("retention"),
            other => panic!("unknown modifier {other}"),
        }
    }
    c.label = spec.to_string();
    c
}

macro_rules! dispatch {
    ($fmt:expr, $func:ident ( $($args:expr),* )) => {
        match $fmt {
            "bytes" => $func::<BytesVec<usize, u32>>($($args),*),
            "zerocopy" => $func::<ZeroCopyVec<usize, u32>>($($args),*),
            "pco" => $func::<PcoVec<usize, u32>>($($args),*),
            "lz4" => $func::<LZ4Vec<usize, u32>>($($args),*),
            "zstd" => $func::<ZstdVec<usize, u32>>($($args),*),
            "eager_bytes" => $func::<EagerVec<BytesVec<usize, u32>>>($($args),*),
            "eager_pco" => $func::<EagerVec<PcoVec<usize, u32>>>($($args),*),
            "bytes_u64" => $func::<BytesVec<usize, u64>>($($args),*),
            "pco_u64" => $func::<PcoVec<usize, u64>>($($args),*),
            "pco_f32" => $func::<PcoVec<usize, f32>>($($args),*),
            "pco_f64" => $func::<PcoVec<usize, f64>>($($args),*),
            "lz4_u8" => $func::<LZ4Vec<usize, u8>>($($args),*),
            "zstd_u16" => $func::<ZstdVec<usize, u16>>($($args),*),
            "zerocopy_u64" => $func::<ZeroCopyVec<usize, u64>>($($args),*),
            "bytes_i64" => $func::<BytesVec<usize, i64>>($($args),*),
            f => panic!("unknown format {f}"),
        }
    };
}

fn explore_one<V: Subject>(
    spec: &str,
    cfg: &VecCfg,
    limits: &Limits,
    classify: &(dyn Fn(&seqx::Violation) -> seqx::Disposition + Sync),
) -> Report
where
    V::T: crate::vecx::Elem,
{
    seqx::explore::<VecSys<V>>(cfg, "vecx", spec, limits, classify)
}

fn worker_one<V: Subject>(spec: &str, cfg: &VecCfg)
where
    V::T: crate::vecx::Elem,
{
    seqx::worker_loop::<VecSys<V>>(cfg, &format!("vecx-w-{}", spec.replace('/', "_")));
}

fn replay_one<V: Subject>(cfg: &VecCfg, path: &[u16], property: &str) -> Vec<Vec<String>>
where
    V::T: crate::vecx::Elem,
{
    let mut outcomes = Vec::new();
    let root = Scratch::new("replay");
    for round in 0..2 {
        let d = root.sub(&format!("r{round}"));
        let (hist, last) = path.split_at(path.len() - 1);
        let mut sys: VecSys<V> = seqx::rebuild(cfg, &d, hist);
        let ops = sys.ops(cfg);
        let op = &ops[last[0] as usize];
        let step = sys.apply(cfg, op, true);
        outcomes.push(
            step.violations
                .iter()
                .filter(|v| v.property.split(',').any(|p| p == property))
                .map(|v| format!("{} :: {}", v.signature, v.detail))
                .collect(),
        );
    }
    outcomes
}

/// spec = "<format>/<profile>[+mod...]"
pub fn worker(spec: &str) {
    let (fmt, prof) = spec.split_once('/').expect("format/profile");
    let cfg = profile_spec(prof);
    dispatch!(fmt, worker_one(spec, &cfg))
}

/// (format, profile spec, depth)
fn plan(property: &str, tier: &str) -> Vec<(&'static str, &'static str, usize)> {
    let quick = tier == "quick";
    match property {
        "C03" => {
            if quick {
                vec![
                    ("zerocopy", "raw", 3),
                    ("lz4", "dense", 3),
                    ("zstd", "dense", 3),
                    ("eager_bytes", "dense", 3),
                    ("eager_pco", "dense", 3),
                    ("bytes", "raw", 4),
                    ("bytes", "raw+pre_w3", 4),
                    ("bytes", "raw+pre_h2", 4),
                    ("bytes", "stamps", 5),
                    ("pco", "stamps", 5),
                    ("pco", "dense+pre_pm1", 4),
                    ("pco", "dense", 5),
                ]
            } else {
                vec![
                    ("bytes", "raw", 6),
                    ("pco", "dense", 6),
                    ("bytes", "raw+pre_w3", 5),
                    ("bytes", "raw+pre_h2", 5),
                    ("zerocopy", "raw+pre_h2", 4),
                    ("pco", "dense+pre_pm1", 5),
                    ("pco", "dense+pre_p1", 5),
                    ("bytes", "raw_full", 3),
                    ("zerocopy", "raw", 4),
                    ("pco", "dense", 5),
                    ("pco", "dense_full", 3),
                    ("lz4", "dense", 4),
                    ("zstd", "dense", 4),
                    ("eager_bytes", "dense", 4),
                    ("eager_pco", "dense", 4),
                    ("bytes_u64", "raw", 3),
                    ("bytes_i64", "raw", 3),
                    ("zerocopy_u64", "raw", 3),
                    ("pco_u64", "dense", 3),
                    ("pco_f32", "dense", 3),
                    ("pco_f64", "dense", 3),
                    ("lz4_u8", "dense", 3),
                    ("zstd_u16", "dense", 3),
                ]
            }
        }
        "C04" => {
            if quick {
                vec![
                    ("bytes", "rb_raw", 6),
                    ("pco", "rb_dense", 6),
                    ("bytes", "rb_stamps", 6),
                    ("pco", "rb_stamps", 6),
                    // continuations from a state with two commits behind it
                    ("pco", "rb_dense+pre_c2+c4", 5),
                    ("bytes", "rb_raw+pre_c2+c4", 5),
                    ("bytes", "rb_raw+pre_c2h+c5", 4),
                ]
            } else {
                vec![
                    ("bytes", "rb_raw+skip", 7),
                    ("pco", "rb_dense+skip", 7),
                    ("pco", "rb_dense+pre_c2+c5", 7),
                    ("bytes", "rb_raw+pre_c2+c5", 7),
                    ("zerocopy", "rb_raw", 6),
                    ("lz4", "rb_dense", 6),
                    ("zstd", "rb_dense", 6),
                ]
            }
        }
        "C07" => {
            if quick {
                vec![
                    ("zstd", "dense+pidx", 3),
                    ("lz4", "dense+pidx", 4),
                    ("lz4", "dense+pidx+pre_pm1", 4),
                    ("pco", "dense+pidx+pre_pm1", 4),
                    ("pco", "dense+pidx+pre_p1", 3),
                    ("pco", "dense+pidx", 5),
                ]
            } else {
                vec![
                    ("pco", "dense+pidx", 5),
                    ("pco", "dense+pidx+pre_pm1", 6),
                    ("pco", "dense+pidx+pre_p1", 5),
                    ("lz4", "dense+pidx+pre_pm1", 5),
                    ("zstd", "dense+pidx+pre_pm1", 5),
                    ("lz4", "dense+pidx", 5),
                    ("zstd", "dense+pidx", 4),
                    ("pco", "dense_full+pidx", 3),
                    ("pco_u64", "dense+pidx", 4),
                    ("pco_f32", "dense+pidx", 3),
                    ("pco_f64", "dense+pidx", 3),
                    ("lz4_u8", "dense+pidx", 3),
                    ("zstd_u16", "dense+pidx", 3),
                ]
            }
        }
        "C13" => {
            if quick {
                vec![
                    ("bytes", "raw_refused", 5),
                    ("pco", "dense_refused", 4),
                    ("bytes", "rb_refused", 6),
                    ("pco", "rb_refused", 5),
                ]
            } else {
                vec![
                    ("bytes", "raw_refused", 5),
                    ("bytes", "rb_refused", 8),
                    ("pco", "rb_refused", 7),
                    ("pco", "dense_refused", 5),
                    ("zerocopy", "raw_refused", 4),
                    ("lz4", "dense_refused", 4),
                    ("zstd", "dense_refused", 4),
                ]
            }
        }
        "C16" => {
            if quick {
                vec![
                    ("bytes", "rb_raw+k0", 4),
                    ("bytes", "rb_raw+k2", 5),
                    ("bytes", "rb_stamps+k2", 7),
                    ("pco", "rb_dense+k1", 5),
                    ("bytes", "rb_raw+k1+faults", 4),
                    ("bytes", "rb_raw+k2+faults", 4),
                    // compressed change records end with the pushed values (nothing follows)
                    ("pco", "rb_dense+k1+faults", 3),
                ]
            } else {
                vec![
                    ("bytes", "rb_raw+k0+c5", 6),
                    ("bytes", "rb_raw+k1+c5+faults_all", 6),
                    ("bytes", "rb_raw+k2+c5+skip+faults", 6),
                    ("bytes", "rb_raw+k3+c5+faults", 6),
                    ("pco", "rb_dense+k0+c5", 5),
                    ("pco", "rb_dense+k1+c5+faults_all", 5),
                    ("pco", "rb_dense+k2+c5+skip+faults", 5),
                    ("pco", "rb_dense+k3+c5+faults", 5),
                ]
            }
        }
        // change records: every single-file fault followed by a rollback
        "C17" => {
            if quick {
                vec![("bytes", "rb_raw+k2+faults", 3), ("pco", "rb_dense+k2+faults", 3)]
            } else {
                vec![("bytes", "rb_raw+k2+c4+faults_all", 5), ("pco", "rb_dense+k2+c4+faults_all", 4)]
            }
        }
        "C08" | "C20" => {
            if quick {
                vec![
                    ("bytes", "raw+holecursor", 2),
                    ("pco", "rb_dense+reads", 4),
                    ("bytes", "rb_raw+reads", 5),
                    ("pco", "dense+reads", 3),
                    ("bytes", "raw+reads", 4),
                    // start states: two commits; three written values; one value short of a page
                    ("bytes", "rb_raw+reads+pre_c2+c5", 4),
                    ("bytes", "rb_raw+reads+pre_c2h+c5", 4),
                    ("bytes", "raw+reads+pre_w3", 3),
                    ("pco", "dense+reads+pre_pm1", 3),
                ]
            } else {
                vec![
                    ("bytes", "raw+reads", 5),
                    ("zerocopy", "raw+reads", 4),
                    ("pco", "dense+reads", 5),
                    ("lz4", "dense+reads", 4),
                    ("zstd", "dense+reads", 4),
                    ("eager_pco", "dense+reads", 4),
                    ("eager_bytes", "dense+reads", 4),
                    ("bytes", "raw+reads+pre_w3", 4),
                    ("pco", "dense+reads+pre_pm1", 4),
                    ("pco", "dense+reads+pre_p1", 4),
                    ("bytes", "rb_raw+reads", 6),
                    ("bytes", "rb_raw+reads+pre_c2+c5", 6),
                    ("bytes", "rb_raw+reads+pre_c2h+c5", 5),
                    ("pco", "rb_dense+reads+pre_c2+c5", 5),
                    ("pco", "rb_dense+reads", 6),
                    ("bytes", "raw+holecursor", 3),
                ]
            }
        }
        _ => vec![],
    }
}

pub fn add(run: &mut Run, kf: &KnownFindings, property: &str, tier: &str, wall: u64) {
    let classify = kf.classifier(property);
    // thorough = everything the quick tier explores (first), plus the deeper plan
    let mut plan = if tier == "quick" {
        plan(property, tier)
    } else {
        let deep = plan(property, tier);
        let mut out: Vec<(&'static str, &'static str, usize)> =
            plan(property, "quick").into_iter().filter(|(f, p, d)| !deep.iter().any(|(g, q, e)| g == f && q == p && e >= d)).collect();
        out.extend(deep);
        out
    };
    // VERIF_VPLAN="bytes/raw:4,pco/dense:3" overrides the plan (calibration / debugging only).
    let leaked: &'static str =
        Box::leak(std::env::var("VERIF_VPLAN").unwrap_or_default().into_boxed_str());
    if !leaked.is_empty() {
        plan = leaked
            .split(',')
            .map(|p| {
                let (a, d) = p.rsplit_once(':').expect("fmt/profile:depth");
                let (f, pr) = a.split_once('/').expect("fmt/profile");
                (f, pr, d.parse().expect("depth"))
            })
            .collect();
    }
    let t0 = std::time::Instant::now();
    let n = plan.len();
    for (i, (fmt, prof, depth)) in plan.into_iter().enumerate() {
        let left = wall.saturating_sub(t0.elapsed().as_secs()).max(1);
        let per = Duration::from_secs(left / (n - i) as u64 + 1);
        let cfg = profile_spec(prof);
        let spec = format!("{fmt}/{prof}");
        let limits = Limits {
            max_depth: depth,
            wall: per,
            max_states: 20_000_000,
        };
        let mut rep: Report = dispatch!(fmt, explore_one(&spec, &cfg, &limits, &classify));
        eprintln!(
            "  [vecx {spec} depth {}/{depth}] states={} transitions={} found={} cap={:?}",
            rep.depth_completed,
            rep.states,
            rep.transitions,
            rep.found.len(),
            rep.cap_hit
        );
        for f in rep.found.iter_mut() {
            f.shown.insert(0, format!("engine=vecx spec={spec}"));
        }
        let first = run.found.len();
        absorb(run, &format!("vecx/{spec}"), &rep);
        for (_, payload) in run.found[first..].iter_mut() {
            *payload = json!({"engine": "vecx", "spec": spec});
        }
    }
    run.assumptions.extend([
        "vecx: one vector per database, index type usize; element values from a position/epoch pattern".to_string(),
        "vecx: bounds = formats, element types, push sizes, index classes and depth as listed per exploration".to_string(),
    ]);
}

pub fn replay(doc: &serde_json::Value) -> i32 {
    let spec = doc["replay"]["spec"].as_str().unwrap_or("bytes/raw").to_string();
    let (fmt, prof) = spec.split_once('/').expect("format/profile");
    let cfg = profile_spec(prof);
    let path: Vec<u16> = doc["path"]
        .as_array()
        .map(|a| a.iter().map(|v| v.as_u64().unwrap() as u16).collect())
        .unwrap_or_default();
    let property = doc["property"].as_str().unwrap_or("");
    let outcomes: Vec<Vec<String>> = dispatch!(fmt, replay_one(&cfg, &path, property));
    crate::finish_replay(doc, property, outcomes)
}
