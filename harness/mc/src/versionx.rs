//! versionx — histories of compute calls with varying source versions, computation
//! versions and starting indices, interleaved with writes and re-imports (C19).

use std::{
    collections::{BTreeMap, HashSet},
    path::Path,
    sync::{
        Arc,
        atomic::{AtomicU32, Ordering},
    },
};

use parking_lot::RwLock;
use rawdb::Database;
use serde_json::json;
use vecdb::{
    AnyStoredVec, AnyVec, BytesVec, EagerVec, Exit, ImportableVec, PcoVec, ReadableVec, StoredVec,
    Version, WritableVec,
};

use crate::{
    report::{KnownFindings, Run},
    scratch::Scratch,
    seqx::{Disposition, Found, Violation, guarded, hash64},
};

/// In-memory source with settable version and contents.
#[derive(Clone)]
pub struct Src {
    data: Arc<RwLock<Vec<u64>>>,
    version: Arc<AtomicU32>,
}

impl Src {
    fn new() -> Self {
        Self {
            data: Arc::new(RwLock::new(vec![])),
            version: Arc::new(AtomicU32::new(1)),
        }
    }
    /// contents of a source "rebuilt under version v" with n elements
    fn set(&self, v: u32, n: usize, salt: u64) {
        self.version.store(v, Ordering::SeqCst);
        *self.data.write() = (0..n as u64).map(|i| v as u64 * 1000 + salt * 100 + i).collect();
    }
    fn get(&self) -> Vec<u64> {
        self.data.read().clone()
    }
}

impl AnyVec for Src {
    fn version(&self) -> Version {
        Version::new(self.version.load(Ordering::SeqCst))
    }
    fn name(&self) -> &str {
        "src"
    }
    fn len(&self) -> usize {
        self.data.read().len()
    }
    fn index_type_to_string(&self) -> &'static str {
        "usize"
    }
    fn region_names(&self) -> Vec<String> {
        vec![]
    }
    fn value_type_to_size_of(&self) -> usize {
        8
    }
    fn value_type_to_string(&self) -> &'static str {
        "u64"
    }
}

impl ReadableVec<usize, u64> for Src {
    fn read_into_at(&self, from: usize, to: usize, buf: &mut Vec<u64>) {
        let d = self.data.read();
        let to = to.min(d.len());
        if from < to {
            buf.extend_from_slice(&d[from..to]);
        }
    }
    fn for_each_range_dyn_at(&self, from: usize, to: usize, f: &mut dyn FnMut(u64)) {
        let d = self.data.read();
        let to = to.min(d.len());
        if from < to {
            d[from..to].iter().copied().for_each(f);
        }
    }
    fn fold_range_at<B, F: FnMut(B, u64) -> B>(&self, from: usize, to: usize, init: B, f: F) -> B {
        let d = self.data.read();
        let to = to.min(d.len());
        if from < to { d[from..to].iter().copied().fold(init, f) } else { init }
    }
    fn try_fold_range_at<B, E, F: FnMut(B, u64) -> Result<B, E>>(
        &self,
        from: usize,
        to: usize,
        init: B,
        f: F,
    ) -> Result<B, E> {
        let d = self.data.read();
        let to = to.min(d.len());
        if from < to { d[from..to].iter().copied().try_fold(init, f) } else { Ok(init) }
    }
}

#[derive(Debug, Clone, Copy, PartialEq, Eq, Hash)]
pub enum From_ {
    Zero,
    Mid,
    Len,
    LenP1,
}

#[derive(Debug, Clone, PartialEq, Eq, Hash)]
pub enum Op {
    /// compute_to(max_from, target, version v)
    To(u32, From_),
    /// set source 1 to version v (rebuilt contents), then compute_transform
    Transform(u32, From_),
    /// sources 1 and 2 at versions (v1, v2), compute_transform2
    Transform2(u32, u32, From_),
    /// arithmetic family: compute_add over sources at (v1, v2)
    Add(u32, u32, From_),
    /// cumulative family
    Cumulative(u32, From_),
    /// statistics family: rolling sum, window 2
    Sum(u32, From_),
    Grow,
    Write,
    Reimport,
}

const FAMILY_TAG: [(&str, u64); 6] = [
    ("to", 1),
    ("transform", 2),
    ("transform2", 3),
    ("add", 4),
    ("cumulative", 5),
    ("sum", 6),
];

struct Sys<V: StoredVec<I = usize, T = u64>> {
    dir: std::path::PathBuf,
    db: Option<Database>,
    out: Option<EagerVec<V>>,
    s1: Src,
    s2: Src,
    target: usize,
    /// model: expected stored result and the presented (dependency) version it belongs to
    expected: Vec<u64>,
    presented: Option<(u64, Vec<u32>)>,
    /// false after two different version combinations with the same sum were presented:
    /// the recorded (summed) version cannot tell them apart, which the statement allows
    model_valid: bool,
    exit: Exit,
}

fn import<V: StoredVec<I = usize, T = u64> + ImportableVec>(db: &Database) -> EagerVec<V>
where
    EagerVec<V>: ImportableVec,
{
    EagerVec::<V>::import(db, "out", Version::ONE).expect("import eager")
}

impl<V> Sys<V>
where
    V: StoredVec<I = usize, T = u64> + ImportableVec,
    EagerVec<V>: ImportableVec,
{
    fn new(dir: &Path) -> Self {
        let db = Database::open(dir).expect("open");
        let out = import::<V>(&db);
        let s1 = Src::new();
        let s2 = Src::new();
        s1.set(1, 4, 1);
        s2.set(1, 4, 2);
        Self {
            dir: dir.to_path_buf(),
            db: Some(db),
            out: Some(out),
            s1,
            s2,
            target: 4,
            expected: vec![],
            presented: None,
            model_valid: true,
            exit: Exit::new(),
        }
    }

    fn resolve(&self, f: From_) -> usize {
        let len = self.out.as_ref().unwrap().len();
        match f {
            From_::Zero => 0,
            From_::Mid => len / 2,
            From_::Len => len,
            From_::LenP1 => len + 1,
        }
    }

    /// Applies one op; returns violations (empty = fine).
    fn apply(&mut self, op: &Op) -> Vec<(String, String)> {
        let mut bad: Vec<(String, String)> = Vec::new();
        let n = self.target;
        let prev: Vec<u64> = self.out.as_ref().unwrap().collect();
        let prev_presented = self.presented.clone();
        let (family, versions, max_from): (u64, Vec<u32>, Option<From_>) = match op {
            Op::To(v, f) => (1, vec![*v], Some(*f)),
            Op::Transform(v, f) => (2, vec![*v], Some(*f)),
            Op::Transform2(a, b, f) => (3, vec![*a, *b], Some(*f)),
            Op::Add(a, b, f) => (4, vec![*a, *b], Some(*f)),
            Op::Cumulative(v, f) => (5, vec![*v], Some(*f)),
            Op::Sum(v, f) => (6, vec![*v], Some(*f)),
            _ => (0, vec![], None),
        };
        let kind = FAMILY_TAG
            .iter()
            .find(|(_, t)| *t == family)
            .map_or("other", |(n, _)| n);
        let mut calls: Vec<usize> = Vec::new();
        match op {
            Op::Grow => {
                self.target += 2;
                let (v1, v2) = (self.s1.version().into(), self.s2.version().into());
                let v1: usize = v1;
                let v2: usize = v2;
                self.s1.set(v1 as u32, self.target, 1);
                self.s2.set(v2 as u32, self.target, 2);
                return bad;
            }
            Op::Write => {
                if let Err(e) = self.out.as_mut().unwrap().write() {
                    bad.push(("write|error".into(), format!("{e:?}")));
                }
            }
            Op::Reimport => {
                let r = (|| -> vecdb::Result<()> {
                    self.out.as_mut().unwrap().flush()?;
                    self.db.as_ref().unwrap().flush()?;
                    self.out = None;
                    self.db = None;
                    let db = Database::open(&self.dir)?;
                    self.out = Some(EagerVec::<V>::import(&db, "out", Version::ONE)?);
                    self.db = Some(db);
                    Ok(())
                })();
                if let Err(e) = r {
                    bad.push(("reimport|error".into(), format!("{e:?}")));
                    return bad;
                }
            }
            _ => {
                let mf = self.resolve(max_from.unwrap());
                let out = self.out.as_mut().unwrap();
                let exit = &self.exit;
                let r = match op {
                    Op::To(v, _) => {
                        let v = *v as u64;
                        out.compute_to(
                            mf,
                            n,
                            Version::new(v as u32),
                            |i| {
                                calls.push(i);
                                (i, v * 1_000_000 + i as u64)
                            },
                            exit,
                        )
                    }
                    Op::Transform(v, _) => {
                        self.s1.set(*v, n, 1);
                        let tag = *v as u64;
                        out.compute_transform(
                            mf,
                            &self.s1,
                            |(i, a, _)| {
                                calls.push(i);
                                (i, tag * 1_000_000 + a)
                            },
                            exit,
                        )
                    }
                    Op::Transform2(a, b, _) => {
                        self.s1.set(*a, n, 1);
                        self.s2.set(*b, n, 2);
                        out.compute_transform2(
                            mf,
                            &self.s1,
                            &self.s2,
                            |(i, x, y, _)| {
                                calls.push(i);
                                (i, x * 10_000 + y)
                            },
                            exit,
                        )
                    }
                    Op::Add(a, b, _) => {
                        self.s1.set(*a, n, 1);
                        self.s2.set(*b, n, 2);
                        out.compute_add(mf, &self.s1, &self.s2, exit)
                    }
                    Op::Cumulative(v, _) => {
                        self.s1.set(*v, n, 1);
                        out.compute_cumulative(mf, &self.s1, exit)
                    }
                    Op::Sum(v, _) => {
                        self.s1.set(*v, n, 1);
                        out.compute_sum(mf, &self.s1, 2, exit)
                    }
                    _ => unreachable!(),
                };
                if let Err(e) = r {
                    bad.push((format!("{kind}|error"), format!("compute failed: {e:?}")));
                    return bad;
                }
                // model: what a from-scratch computation under the presented versions gives
                let a = self.s1.get();
                let b = self.s2.get();
                self.expected = match op {
                    Op::To(v, _) => (0..n).map(|i| *v as u64 * 1_000_000 + i as u64).collect(),
                    Op::Transform(v, _) => (0..n).map(|i| *v as u64 * 1_000_000 + a[i]).collect(),
                    Op::Transform2(..) => (0..n).map(|i| a[i] * 10_000 + b[i]).collect(),
                    Op::Add(..) => (0..n).map(|i| a[i] + b[i]).collect(),
                    Op::Cumulative(..) => {
                        let mut s = 0;
                        a.iter().take(n).map(|x| { s += x; s }).collect()
                    }
                    Op::Sum(..) => (0..n).map(|i| a[i] + if i >= 1 { a[i - 1] } else { 0 }).collect(),
                    _ => unreachable!(),
                };
                self.presented = Some((family, versions.clone()));
                let got: Vec<u64> = self.out.as_ref().unwrap().collect();
                let same_presented = prev_presented.as_ref() == Some(&(family, versions.clone()));
                // the recorded version identifies (own version + presented dependency version);
                // different families with equal numeric versions are indistinguishable to the
                // library, so mixing is only judged when the numeric combination changed
                let numeric = |p: &Option<(u64, Vec<u32>)>| -> Option<u64> {
                    p.as_ref().map(|(f, v)| {
                        let dep: u64 = v.iter().map(|x| *x as u64).sum();
                        // compute_sum adds its own computation version 2
                        dep + if *f == 6 { 2 } else { 0 }
                    })
                };
                let version_changed = numeric(&prev_presented) != numeric(&self.presented);
                if version_changed {
                    self.model_valid = true;
                    if got != self.expected {
                        let first = got.iter().zip(&self.expected).position(|(x, y)| x != y).unwrap_or(got.len().min(self.expected.len()));
                        bad.push((
                            format!("{kind}|version_changed|stale_results_kept"),
                            format!(
                                "combined version changed ({prev_presented:?} -> {:?}) but the stored result is not the from-scratch result: len {} vs {}, first difference at {first} ({:?} vs {:?})",
                                self.presented, got.len(), self.expected.len(), got.get(first), self.expected.get(first)
                            ),
                        ));
                    }
                    if matches!(op, Op::To(..) | Op::Transform(..) | Op::Transform2(..)) && !prev.is_empty() {
                        let want: Vec<usize> = (0..n).collect();
                        if calls != want {
                            bad.push((
                                format!("{kind}|version_changed|not_recomputed_from_zero"),
                                format!("closure called for {calls:?}, expected every index 0..{n}"),
                            ));
                        }
                    }
                } else if !same_presented {
                    self.model_valid = false;
                } else {
                    let keep = mf.min(prev.len());
                    if let Some(c) = calls.iter().find(|c| **c < keep) {
                        bad.push((
                            format!("{kind}|version_unchanged|reevaluated_below_start"),
                            format!("closure called with index {c} < min(max_from {mf}, stored {})", prev.len()),
                        ));
                    }
                    if got.len() < keep || got[..keep] != prev[..keep] {
                        bad.push((
                            format!("{kind}|version_unchanged|altered_below_start"),
                            format!("elements below {keep} changed: {:?} -> {:?}", &prev[..keep.min(prev.len())], &got[..keep.min(got.len())]),
                        ));
                    }
                    if self.model_valid && got != self.expected {
                        bad.push((
                            format!("{kind}|version_unchanged|result"),
                            format!("stored {got:?}, expected {:?}", self.expected),
                        ));
                    }
                }
            }
        }
        // the recorded version survives writes and re-imports
        if matches!(op, Op::Write | Op::Reimport) {
            let got: Vec<u64> = self.out.as_ref().unwrap().collect();
            if got != prev {
                bad.push((
                    format!("{}|contents_changed", if matches!(op, Op::Write) { "write" } else { "reimport" }),
                    format!("{prev:?} -> {got:?}"),
                ));
            }
        }
        if let Some((f, v)) = &self.presented {
            let dep: u32 = v.iter().sum::<u32>() + if *f == 6 { 2 } else { 0 };
            let out = self.out.as_ref().unwrap();
            let want = u32::from(out.header().vec_version()) + dep;
            let got = u32::from(out.header().computed_version());
            if got != want {
                bad.push((
                    format!("{:?}|recorded_version", std::mem::discriminant(op)).replace("Discriminant", "op"),
                    format!("header records computed version {got}, last presented combination is {want}"),
                ));
            }
        }
        bad
    }
}

/// One computation per vector: the alphabet of a history is one compute family with all
/// its version / starting-index variants, plus growth, write and re-import.
fn ops(family: u64) -> Vec<Op> {
    let froms = [From_::Zero, From_::Mid, From_::Len, From_::LenP1];
    let mut v = Vec::new();
    match family {
        1 | 2 | 5 | 6 => {
            for ver in [1u32, 2] {
                for f in froms {
                    v.push(match family {
                        1 => Op::To(ver, f),
                        2 => Op::Transform(ver, f),
                        5 => Op::Cumulative(ver, f),
                        _ => Op::Sum(ver, f),
                    });
                }
            }
        }
        _ => {
            for (a, b) in [(1u32, 1u32), (1, 2), (2, 1)] {
                for f in [From_::Zero, From_::Mid, From_::Len] {
                    v.push(if family == 3 { Op::Transform2(a, b, f) } else { Op::Add(a, b, f) });
                }
            }
        }
    }
    v.push(Op::Grow);
    v.push(Op::Write);
    v.push(Op::Reimport);
    v
}

fn explore<V>(
    label: &'static str,
    family: u64,
    depth: usize,
    run: &mut Run,
    classify: &(dyn Fn(&Violation) -> Disposition + Sync),
) where
    V: StoredVec<I = usize, T = u64> + ImportableVec,
    EagerVec<V>: ImportableVec,
{
    let root = Scratch::new("versionx");
    let all = ops(family);
    let label: &str = &format!("{label}/{}", FAMILY_TAG.iter().find(|(_, t)| *t == family).map_or("?", |(n, _)| n));
    let mut histories: u64 = 0;
    let mut steps: u64 = 0;
    let mut outcomes: HashSet<u64> = HashSet::new();
    let mut found: BTreeMap<String, (Vec<String>, String)> = BTreeMap::new();
    // depth-first over all op sequences; each prefix is re-executed from scratch
    let mut stack: Vec<Vec<usize>> = (0..all.len()).map(|i| vec![i]).collect();
    while let Some(path) = stack.pop() {
        let d = root.sub("h");
        histories += 1;
        let r = guarded(|| {
            let mut sys = Sys::<V>::new(&d);
            let mut last = Vec::new();
            for (k, &i) in path.iter().enumerate() {
                let bad = sys.apply(&all[i]);
                if k + 1 == path.len() {
                    last = bad;
                } else if !bad.is_empty() {
                    // a violation earlier in the prefix was already reported
                    return (Vec::new(), 0u64, true);
                }
            }
            let obs = hash64(&(sys.out.as_ref().unwrap().collect(), sys.expected.clone()));
            (last, obs, false)
        });
        steps += path.len() as u64;
        let shown: Vec<String> = path.iter().map(|i| format!("{:?}", all[*i])).collect();
        match r {
            Err(p) => {
                found.entry(format!("{label}|panic:{}", p.split(": ").next().unwrap_or("?"))).or_insert((shown, p));
            }
            Ok((bad, obs, cut)) => {
                outcomes.insert(obs);
                if cut {
                    continue;
                }
                if !bad.is_empty() {
                    for (sig, detail) in bad {
                        found.entry(format!("{label}|{sig}")).or_insert((shown.clone(), detail));
                    }
                    continue;
                }
                if path.len() < depth {
                    for i in 0..all.len() {
                        // two bookkeeping ops in a row add nothing
                        let boring = |o: &Op| matches!(o, Op::Write | Op::Reimport | Op::Grow);
                        if boring(&all[i]) && boring(&all[*path.last().unwrap()]) {
                            continue;
                        }
                        let mut p = path.clone();
                        p.push(i);
                        stack.push(p);
                    }
                }
            }
        }
    }
    run.cov_add("states", outcomes.len() as u64);
    run.cov_add("transitions", steps);
    run.cov_add("traces_validated_against_impl", histories);
    run.cov_add("evaluations", histories);
    run.cov_add("distinct_nontrivial", outcomes.len() as u64);
    run.cov("exhaustive", json!(true));
    let mut e = run.coverage.remove("explorations").unwrap_or_else(|| json!([]));
    e.as_array_mut().unwrap().push(json!({
        "label": format!("versionx/{label}"),
        "depth": depth,
        "alphabet": all.len(),
        "histories_executed": histories,
        "distinct_outcomes": outcomes.len(),
    }));
    run.cov("explorations", e);
    run.push_sample(json!({"exploration": format!("versionx/{label}"), "history": ["To(2, Zero)", "Write", "To(1, Mid)", "Reimport"]}));
    for (sig, (shown, detail)) in found {
        let v = Violation {
            property: "C19".into(),
            signature: sig,
            detail,
        };
        let d = classify(&v);
        if d == Disposition::Ignore {
            continue;
        }
        run.add_found(
            Found {
                path: vec![],
                shown,
                violation: v,
                known: d == Disposition::Known,
            },
            json!({"engine": "versionx", "label": label.to_string()}),
        );
    }
}

pub fn add(run: &mut Run, kf: &KnownFindings, tier: &str) {
    let classify = kf.classifier("C19");
    let quick = tier == "quick";
    for family in 1..=6u64 {
        explore::<BytesVec<usize, u64>>("eager_bytes", family, if quick { 4 } else { 5 }, run, &classify);
        explore::<PcoVec<usize, u64>>("eager_pco", family, if quick { 3 } else { 4 }, run, &classify);
    }
    run.assumptions.push("versionx: sources are in-memory vectors whose version and contents the harness sets together (a source rebuilt under another version has other contents); the vector's own import version is fixed".into());
}

// ---------------------------------------------------------------------------------------
// chains: a computed column as the source of another computed column
// ---------------------------------------------------------------------------------------

#[derive(Debug, Clone, Copy, PartialEq, Eq)]
enum ChainOp {
    /// the root source is rebuilt under version v (its contents depend on v)
    Root(u32),
    /// compute the first-level column from the root, starting at 0 or at its current length
    B(bool),
    /// compute the second-level column from the first-level one
    C(bool),
    Reimport,
}

/// All histories up to `depth` over root versions, computes of a first-level and a
/// second-level EagerVec (incremental or from 0) and re-imports. Oracle (C19: version changes
/// propagate, results of different input versions are never mixed): after every compute of a
/// column, its stored contents equal its function applied to the *current* contents of its
/// source — the source's contents only ever change together with its version here, so a
/// column that keeps old results has missed a version change.
pub fn chains(run: &mut Run, kf: &KnownFindings, tier: &str) {
    let classify = kf.classifier("C19");
    let depth = if tier == "quick" { 5 } else { 7 };
    let root = Scratch::new("versionx-chain");
    let alphabet = [ChainOp::Root(1), ChainOp::Root(2), ChainOp::B(false), ChainOp::B(true), ChainOp::C(false), ChainOp::C(true), ChainOp::Reimport];
    let mut histories = 0u64;
    let mut steps = 0u64;
    let mut found: BTreeMap<String, (Vec<String>, String)> = BTreeMap::new();
    let mut outcomes: HashSet<u64> = HashSet::new();
    let mut stack: Vec<Vec<ChainOp>> = vec![vec![]];
    while let Some(hist) = stack.pop() {
        histories += 1;
        steps += hist.len() as u64;
        let dir = root.sub("h");
        let r = guarded(|| -> Result<(u64, Option<(String, String)>), String> {
            let exit = Exit::new();
            let a = Src::new();
            a.set(1, 4, 1);
            let open = |dir: &Path| -> Result<(Database, EagerVec<BytesVec<usize, u64>>, EagerVec<BytesVec<usize, u64>>), String> {
                let db = Database::open(dir).map_err(|e| format!("{e:?}"))?;
                let b = EagerVec::<BytesVec<usize, u64>>::import(&db, "b", Version::ONE).map_err(|e| format!("{e:?}"))?;
                let c = EagerVec::<BytesVec<usize, u64>>::import(&db, "c", Version::ONE).map_err(|e| format!("{e:?}"))?;
                Ok((db, b, c))
            };
            let (mut db, mut b, mut c) = open(&dir)?;
            let mut bad = None;
            for (i, op) in hist.iter().enumerate() {
                let last = i + 1 == hist.len();
                match op {
                    ChainOp::Root(v) => a.set(*v, 4, 1),
                    ChainOp::B(incremental) => {
                        let mf = if *incremental { b.len() } else { 0 };
                        b.compute_transform(mf, &a, |(i, v, _)| (i, v * 2 + 1), &exit).map_err(|e| format!("compute b: {e:?}"))?;
                        let want: Vec<u64> = a.get().iter().map(|v| v * 2 + 1).collect();
                        if last && b.collect() != want {
                            bad = Some(("chain|first_level|stale_results_kept".to_string(), format!("first-level column {:?}, its source now gives {:?}", b.collect(), want)));
                        }
                    }
                    ChainOp::C(incremental) => {
                        let mf = if *incremental { c.len() } else { 0 };
                        c.compute_transform(mf, &b, |(i, v, _)| (i, v + 7), &exit).map_err(|e| format!("compute c: {e:?}"))?;
                        let want: Vec<u64> = b.collect().iter().map(|v| v + 7).collect();
                        if last && c.collect() != want {
                            bad = Some((
                                "chain|second_level|stale_results_kept".to_string(),
                                format!("second-level column {:?}, but its source (the first-level column) now holds values that give {:?}", c.collect(), want),
                            ));
                        }
                    }
                    ChainOp::Reimport => {
                        b.flush().map_err(|e| format!("{e:?}"))?;
                        c.flush().map_err(|e| format!("{e:?}"))?;
                        db.flush().map_err(|e| format!("{e:?}"))?;
                        drop(b);
                        drop(c);
                        drop(db);
                        let t = open(&dir)?;
                        db = t.0;
                        b = t.1;
                        c = t.2;
                    }
                }
            }
            Ok((hash64(&(b.collect(), c.collect(), format!("{:?}", b.version()), format!("{:?}", c.version()))), bad))
        });
        let shown: Vec<String> = hist.iter().map(|o| format!("{o:?}")).collect();
        match r {
            Err(p) => {
                found.entry(format!("chain|panic|{}", p.split(": ").next().unwrap_or("?"))).or_insert((shown, p));
                continue;
            }
            Ok(Err(e)) => {
                found.entry(format!("chain|error|{}", e.split(':').next().unwrap_or("?"))).or_insert((shown, e));
                continue;
            }
            Ok(Ok((obs, bad))) => {
                outcomes.insert(obs);
                if let Some((sig, detail)) = bad {
                    found.entry(sig).or_insert((shown, detail));
                    continue;
                }
            }
        }
        if hist.len() < depth {
            for op in alphabet {
                // a re-import right after a re-import, or a root rebuilt twice in a row, adds nothing
                if matches!((hist.last(), op), (Some(ChainOp::Reimport), ChainOp::Reimport) | (Some(ChainOp::Root(_)), ChainOp::Root(_))) {
                    continue;
                }
                let mut h = hist.clone();
                h.push(op);
                stack.push(h);
            }
        }
    }
    eprintln!("  [versionx chains depth {depth}] histories={histories} distinct_outcomes={} found={}", outcomes.len(), found.len());
    run.cov_add("states", outcomes.len() as u64);
    run.cov_add("transitions", steps);
    run.cov_add("traces_validated_against_impl", histories);
    run.cov_add("evaluations", histories);
    run.cov_add("distinct_nontrivial", outcomes.len() as u64);
    let mut e = run.coverage.remove("explorations").unwrap_or_else(|| json!([]));
    e.as_array_mut().unwrap().push(json!({
        "label": "versionx/chains",
        "what": "root source with settable version -> first-level EagerVec (compute_transform) -> second-level EagerVec (compute_transform over the first); all histories over {rebuild root under version 1 / 2, compute first level from 0 / incrementally, compute second level from 0 / incrementally, flush + re-import}",
        "depth": depth,
        "histories_executed": histories,
        "distinct_outcomes": outcomes.len(),
    }));
    run.cov("explorations", e);
    for (sig, (shown, detail)) in found {
        let v = Violation {
            property: "C19".into(),
            signature: sig,
            detail,
        };
        let d = classify(&v);
        if d == Disposition::Ignore {
            continue;
        }
        run.add_found(
            Found {
                path: vec![],
                shown,
                violation: v,
                known: d == Disposition::Known,
            },
            json!({"engine": "versionx", "label": "chains"}),
        );
    }
}
