#!/usr/bin/env python3
"""Prints the prompt given to a mutation sub-agent: property text + its scratch worktree only."""
import json,sys
pid, wt, hint = sys.argv[1], sys.argv[2], (sys.argv[3] if len(sys.argv)>3 else "")
for l in open('/verif/properties.jsonl'):
    p=json.loads(l)
    if p['id']==pid: break
out=wt+"-out"
print(f"""You are helping to test a verification framework by playing the role of a developer who introduces a subtle regression.

The project is anydb-rs/anydb (Rust workspace: crates rawdb = single-file mmap region allocator with hole punching; vecdb = persistent compressed vectors with rollback and computed columns). You have your own scratch git worktree of it at {wt} . Work ONLY inside {wt} and {out} . Never touch /repo or /verif, never read anything under /verif. There is no network: always pass --offline to cargo (e.g. `cargo test --workspace --offline`). Use `CARGO_TARGET_DIR={wt}/target`.

The semantic property that the project is supposed to satisfy:

  {p['id']} — {p['title']}
  {p['statement']}
  Quantified over: {p['quantifier']['text']}

Your task: make ONE small, realistic change to the library source (crates/rawdb/src or crates/vecdb/src; not tests, not Cargo files) that BREAKS this property, such that
  1. the workspace still compiles and the complete existing test suite still passes (`cd {wt} && CARGO_TARGET_DIR={wt}/target cargo test --workspace --offline` — run it and confirm: 0 failed),
  2. the breakage needs something specific to manifest — a particular multi-step sequence of operations, an unusual size/offset/boundary input, a particular interleaving or crash point, or two cooperating sites that each look fine alone — NOT something ordinary use would expose at once,
  3. it looks like a plausible mistake a maintainer could make (an off-by-one in a boundary condition, a wrong variable in cursor/offset logic, a state update in the wrong order, a forgotten case, a stale cached value), not sabotage (no random behaviour, no special-casing of magic values, no removed functionality, no panics inserted).
{hint}
Lines guarded by `#[cfg(anydb_verif)]` in the sources are verification hooks that are compiled out in normal builds: do not edit or rely on them.

Then write a demonstration: a Rust integration test file (placed at crates/rawdb/tests/seeded_demo.rs or crates/vecdb/tests/seeded_demo.rs inside the worktree; vecdb tests may need `--features` such as pco; look at how existing tests are gated) with a test that uses only the public API, FAILS with your change and PASSES without it. Verify both directions yourself (use `git stash` or `git diff > patch; git checkout crates/*/src; ...; git apply patch`).

Deliverables, all in {out}/ :
  - patch.diff : `git diff -- crates/rawdb/src crates/vecdb/src` of your change only (source change, not the demo test)
  - seeded_demo.rs : the demonstration test file
  - meta.json : {{"property": "{p['id']}", "crate": "rawdb|vecdb (the crate whose tests/ directory holds seeded_demo.rs)", "summary": "...one paragraph: what was changed and why it breaks the property...", "needs_to_manifest": "...the specific sequence/input/interleaving needed...", "demo_cmd": "exact cargo command that runs the demo test", "suite_result": "N passed, 0 failed"}}
Leave the worktree with your change applied and the demo test present. Keep the change to a handful of lines. In your final message report the summary, what it needs to manifest, and confirm the three verifications (suite passes with change; demo fails with change; demo passes without).""")
