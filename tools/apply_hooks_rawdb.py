#!/usr/bin/env python3
"""One-shot script used to insert the cfg(anydb_verif) taps into rawdb (kept for the record)."""
import re,sys
R='/repo/crates/rawdb/src/'
def edit(path, pairs):
    s=open(R+path).read()
    for old,new in pairs:
        assert s.count(old)==1, (path, old, s.count(old))
        s=s.replace(old,new)
    open(R+path,'w').write(s)

V='#[cfg(anydb_verif)]\n'
def acc(indent, name, mode, field):
    return f'{indent}#[cfg(anydb_verif)]\n{indent}verif::lock_rw("{name}", verif::LockMode::{mode}, &self.0.{field});\n'

edit('lib.rs', [
 ('mod regions;\n', 'mod regions;\n#[cfg(anydb_verif)]\npub mod verif;\n'),
 ('        self.0.file.read()\n', acc('        ','file','Read','file')+'        self.0.file.read()\n'),
 ('        self.0.file.write()\n', acc('        ','file','Write','file')+'        self.0.file.write()\n'),
 ('        self.0.mmap.read()\n', acc('        ','mmap','Read','mmap')+'        self.0.mmap.read()\n'),
 ('        self.0.mmap.write()\n', acc('        ','mmap','Write','mmap')+'        self.0.mmap.write()\n'),
 ('        self.0.regions.read()\n', acc('        ','regions','Read','regions')+'        self.0.regions.read()\n'),
 ('        self.0.regions.write()\n', acc('        ','regions','Write','regions')+'        self.0.regions.write()\n'),
 ('        self.0.layout.read()\n', acc('        ','layout','Read','layout')+'        self.0.layout.read()\n'),
 ('        self.0.layout.write()\n', acc('        ','layout','Write','layout')+'        self.0.layout.write()\n'),
 # open
 ('        file.try_lock()?;\n\n        let mut file_len',
  '        #[cfg(anydb_verif)]\n        verif::emit(verif::Event::Point("open:file_opened"));\n        file.try_lock()?;\n        #[cfg(anydb_verif)]\n        verif::emit(verif::Event::Point("open:locked"));\n\n        let mut file_len'),
 ('            file.set_len(min_len as u64)?;\n            file.sync_all()?;',
  '            #[cfg(anydb_verif)]\n            verif::emit(verif::Event::SetLen {\n                file: verif::FileKind::Data,\n                len: min_len,\n            });\n            file.set_len(min_len as u64)?;\n            file.sync_all()?;'),
 ('        let regions = Regions::open(path)?;\n        let mmap = create_mmap(&file)?;',
  '        #[cfg(anydb_verif)]\n        verif::emit(verif::Event::Point("open:len_set"));\n        let regions = Regions::open(path)?;\n        #[cfg(anydb_verif)]\n        verif::emit(verif::Event::Point("open:regions_opened"));\n        let mmap = create_mmap(&file)?;'),
 # set_min_len
 ('        file.set_len(target_len as u64)?;\n        self.0.cached_file_len',
  '        #[cfg(anydb_verif)]\n        verif::emit(verif::Event::SetLen {\n            file: verif::FileKind::Data,\n            len: target_len,\n        });\n        file.set_len(target_len as u64)?;\n        self.0.cached_file_len'),
 # write
 ('    pub(crate) fn write(&self, start: usize, data: &[u8]) {\n        write_to_mmap(&self.mmap(), start, data);',
  '    pub(crate) fn write(&self, start: usize, data: &[u8]) {\n        #[cfg(anydb_verif)]\n        {\n            let mmap = self.mmap();\n            verif::emit(verif::Event::MmapWrite {\n                file: verif::FileKind::Data,\n                off: start,\n                len: data.len(),\n                src: data.as_ptr(),\n            });\n            write_to_mmap(&mmap, start, data);\n            return;\n        }\n        #[cfg(not(anydb_verif))]\n        write_to_mmap(&self.mmap(), start, data);'),
 ('        let mmap = self.mmap();\n        write_to_mmap(&mmap, dst, &mmap[src..src_end]);',
  '        let mmap = self.mmap();\n        #[cfg(anydb_verif)]\n        verif::emit(verif::Event::MmapWrite {\n            file: verif::FileKind::Data,\n            off: dst,\n            len,\n            src: mmap[src..src_end].as_ptr(),\n        });\n        write_to_mmap(&mmap, dst, &mmap[src..src_end]);'),
 # flush
 ('            let mmap = self.mmap();\n            if let Err(e) = mmap.flush_async_range(flush_start, flush_end - flush_start) {',
  '            let mmap = self.mmap();\n            #[cfg(anydb_verif)]\n            verif::emit(verif::Event::FlushAsync {\n                file: verif::FileKind::Data,\n                off: flush_start,\n                len: flush_end - flush_start,\n            });\n            if let Err(e) = mmap.flush_async_range(flush_start, flush_end - flush_start) {'),
 ('        self.regions().flush()?;\n        self.file().sync_data()?;\n        self.regions().sync_data()?;\n        for (region, _) in &dirty_regions {',
  '        self.regions().flush()?;\n        #[cfg(anydb_verif)]\n        {\n            let file = self.file();\n            verif::emit(verif::Event::SyncBegin {\n                file: verif::FileKind::Data,\n            });\n            file.sync_data()?;\n            verif::emit(verif::Event::SyncEnd {\n                file: verif::FileKind::Data,\n            });\n        }\n        #[cfg(not(anydb_verif))]\n        self.file().sync_data()?;\n        self.regions().sync_data()?;\n        for (region, _) in &dirty_regions {'),
 # bg_sleep
 ('        let (m, cv) = &self.0.bg_sync;\n        let mut g = m.lock();\n        if !*g {\n            cv.wait_for(&mut g, dur);',
  '        #[cfg(anydb_verif)]\n        {\n            verif::emit(verif::Event::BgSleep);\n            if verif::skip_bg_sleep() {\n                return;\n            }\n        }\n        let (m, cv) = &self.0.bg_sync;\n        let mut g = m.lock();\n        if !*g {\n            cv.wait_for(&mut g, dur);'),
 # run_bg
 ('        self.0.bg_tasks.lock().push(thread::spawn(move || f(&db)));',
  '        #[cfg(anydb_verif)]\n        {\n            let token = verif::next_token();\n            let handle = thread::spawn(move || {\n                verif::emit(verif::Event::ThreadStart { token });\n                let r = f(&db);\n                verif::emit(verif::Event::ThreadEnd { token });\n                r\n            });\n            verif::emit(verif::Event::Spawned { token });\n            self.0.bg_tasks.lock().push(handle);\n            VERIF_BG_TOKENS.lock().push((Arc::as_ptr(&self.0) as usize, token));\n            return;\n        }\n        #[cfg(not(anydb_verif))]\n        self.0.bg_tasks.lock().push(thread::spawn(move || f(&db)));'),
 ('        for handle in handles {\n            handle.join().unwrap()?;\n        }',
  '        #[cfg(anydb_verif)]\n        let mut verif_tokens: Vec<usize> = {\n            let me = Arc::as_ptr(&self.0) as usize;\n            let mut all = VERIF_BG_TOKENS.lock();\n            let mine = all.iter().filter(|(d, _)| *d == me).map(|(_, t)| *t).collect();\n            all.retain(|(d, _)| *d != me);\n            mine\n        };\n        #[cfg(anydb_verif)]\n        verif_tokens.reverse();\n        for handle in handles {\n            #[cfg(anydb_verif)]\n            if let Some(token) = verif_tokens.pop() {\n                verif::emit(verif::Event::Join { token });\n            }\n            handle.join().unwrap()?;\n        }'),
 # punch_holes
 ('        for region in &regions_to_check {\n            let meta = region.meta_mut();',
  '        for region in &regions_to_check {\n            let meta = region.meta_mut();\n            #[cfg(anydb_verif)]\n            verif::emit(verif::Event::Point("punch:meta_locked"));'),
 ('            let file = self.file();\n            file.sync_data()?;\n        }\n\n        Ok(())\n    }\n\n    /// Samples a few bytes',
  '            let file = self.file();\n            #[cfg(anydb_verif)]\n            verif::emit(verif::Event::SyncBegin {\n                file: verif::FileKind::Data,\n            });\n            file.sync_data()?;\n            #[cfg(anydb_verif)]\n            verif::emit(verif::Event::SyncEnd {\n                file: verif::FileKind::Data,\n            });\n        }\n\n        Ok(())\n    }\n\n    /// Samples a few bytes'),
 ('/// Weak reference to a [`Database`], held by regions',
  '/// (database identity, token) of background threads not yet joined; join order = push order.\n#[cfg(anydb_verif)]\nstatic VERIF_BG_TOKENS: Mutex<Vec<(usize, usize)>> = Mutex::new(Vec::new());\n\n/// Weak reference to a [`Database`], held by regions'),
])
