#!/usr/bin/env python3
"""One-shot script used to insert the cfg(anydb_verif) taps into rawdb, part 2 (kept for the record)."""
R='/repo/crates/rawdb/src/'
def edit(path, pairs):
    s=open(R+path).read()
    for old,new in pairs:
        assert s.count(old)==1, (path, old, s.count(old))
        s=s.replace(old,new)
    open(R+path,'w').write(s)
def pt(ind,name): return f'{ind}#[cfg(anydb_verif)]\n{ind}crate::verif::emit(crate::verif::Event::Point("{name}"));\n'

edit('region.rs', [
 ('        self.0.meta.read()\n', '        #[cfg(anydb_verif)]\n        crate::verif::lock_rw("meta", crate::verif::LockMode::Read, &self.0.meta);\n        self.0.meta.read()\n'),
 ('        self.0.meta.write()\n', '        #[cfg(anydb_verif)]\n        crate::verif::lock_rw("meta", crate::verif::LockMode::Write, &self.0.meta);\n        self.0.meta.write()\n'),
 # fits in reserve
 ('            db.write(write_start, data);\n            self.mark_dirty_abs(start, write_start, data_len);\n\n            if new_len != len {',
  '            db.write(write_start, data);\n'+pt('            ','write_with:after_data')+'            self.mark_dirty_abs(start, write_start, data_len);\n\n            if new_len != len {'),
 # batch_write_each
 ('            write_fn(&value, slice);\n',
  '            write_fn(&value, slice);\n            #[cfg(anydb_verif)]\n            crate::verif::emit(crate::verif::Event::MmapWritten {\n                file: crate::verif::FileKind::Data,\n                off: abs_offset,\n                len: value_len,\n                src: slice.as_ptr(),\n            });\n'),
 # Region::flush
 ('            let mmap = db.mmap();\n            if let Err(e) = mmap.flush_async_range(region_start + min, max - min) {',
  '            let mmap = db.mmap();\n            #[cfg(anydb_verif)]\n            crate::verif::emit(crate::verif::Event::FlushAsync {\n                file: crate::verif::FileKind::Data,\n                off: region_start + min,\n                len: max - min,\n            });\n            if let Err(e) = mmap.flush_async_range(region_start + min, max - min) {'),
 ('        if data_flushed || meta_flushed {\n            db.file().sync_data()?;\n',
  '        if data_flushed || meta_flushed {\n            #[cfg(anydb_verif)]\n            {\n                let file = db.file();\n                crate::verif::emit(crate::verif::Event::SyncBegin {\n                    file: crate::verif::FileKind::Data,\n                });\n                file.sync_data()?;\n                crate::verif::emit(crate::verif::Event::SyncEnd {\n                    file: crate::verif::FileKind::Data,\n                });\n            }\n            #[cfg(not(anydb_verif))]\n            db.file().sync_data()?;\n'),
])

edit('regions.rs', [
 ('            self.file.set_len(len as u64)?;\n',
  '            #[cfg(anydb_verif)]\n            crate::verif::emit(crate::verif::Event::SetLen {\n                file: crate::verif::FileKind::Regions,\n                len,\n            });\n            self.file.set_len(len as u64)?;\n'),
 ('        self.mmap.flush_async()?;\n',
  '        #[cfg(anydb_verif)]\n        crate::verif::emit(crate::verif::Event::FlushAsync {\n            file: crate::verif::FileKind::Regions,\n            off: 0,\n            len: self.mmap.len(),\n        });\n        self.mmap.flush_async()?;\n'),
 ('        self.file.sync_data()?;\n        Ok(())',
  '        #[cfg(anydb_verif)]\n        crate::verif::emit(crate::verif::Event::SyncBegin {\n            file: crate::verif::FileKind::Regions,\n        });\n        self.file.sync_data()?;\n        #[cfg(anydb_verif)]\n        crate::verif::emit(crate::verif::Event::SyncEnd {\n            file: crate::verif::FileKind::Regions,\n        });\n        Ok(())'),
 ('        let offset = index * SIZE_OF_REGION_METADATA;\n        write_to_mmap(&self.mmap, offset, data);',
  '        let offset = index * SIZE_OF_REGION_METADATA;\n        #[cfg(anydb_verif)]\n        crate::verif::emit(crate::verif::Event::MmapWrite {\n            file: crate::verif::FileKind::Regions,\n            off: offset,\n            len: data.len(),\n            src: data.as_ptr(),\n        });\n        write_to_mmap(&self.mmap, offset, data);'),
])

edit('region_metadata.rs', [
 ('        regions\n            .mmap()\n            .flush_async_range(index * SIZE_OF_REGION_METADATA, SIZE_OF_REGION_METADATA)?;',
  '        #[cfg(anydb_verif)]\n        crate::verif::emit(crate::verif::Event::FlushAsync {\n            file: crate::verif::FileKind::Regions,\n            off: index * SIZE_OF_REGION_METADATA,\n            len: SIZE_OF_REGION_METADATA,\n        });\n        regions\n            .mmap()\n            .flush_async_range(index * SIZE_OF_REGION_METADATA, SIZE_OF_REGION_METADATA)?;'),
 ('    pub(crate) fn mark_clean(&self) {',
  '    /// 0 = clean, 1 = needs flush, 2 = needs write.\n    #[cfg(anydb_verif)]\n    pub fn verif_state(&self) -> u8 {\n        if self.state.is_clean() {\n            0\n        } else if self.state.needs_flush() {\n            1\n        } else {\n            2\n        }\n    }\n\n    #[inline]\n    pub(crate) fn mark_clean(&self) {'),
])
# fix duplicated #[inline] for mark_clean: original had "#[inline]\n    pub(crate) fn mark_clean" so we now have inline before verif_state's doc; check below.

edit('hole_punch.rs', [
 ('    #[cfg(target_os = "linux")]\n    pub fn punch(file: &File, start: usize, length: usize) -> Result<()> {\n',
  '    #[cfg(target_os = "linux")]\n    pub fn punch(file: &File, start: usize, length: usize) -> Result<()> {\n        #[cfg(anydb_verif)]\n        crate::verif::emit(crate::verif::Event::Punch {\n            off: start,\n            len: length,\n        });\n'),
])

edit('reader.rs', [
 ('        let start = self.start() + offset;\n        let end = start + len;\n        &self.mmap[start..end]',
  '        #[cfg(anydb_verif)]\n        crate::verif::emit(crate::verif::Event::Access {\n            kind: "reader:unchecked_read",\n            region_start: self.start,\n            region_len: self._region.meta().len(),\n            off: offset,\n            len,\n        });\n        let start = self.start() + offset;\n        let end = start + len;\n        &self.mmap[start..end]'),
 ('    #[inline(always)]\n    pub fn is_empty(&self) -> bool {',
  '    /// Absolute start of the snapshot and the owning region (verification only).\n    #[cfg(anydb_verif)]\n    pub fn verif_start(&self) -> usize {\n        self.start\n    }\n\n    #[cfg(anydb_verif)]\n    pub fn verif_region(&self) -> &Region {\n        &self._region\n    }\n\n    #[inline(always)]\n    pub fn is_empty(&self) -> bool {'),
])

edit('layout.rs', [
 ('    pub fn start_to_hole(&self) -> &BTreeMap<usize, usize> {\n        &self.start_to_hole\n    }\n',
  '    pub fn start_to_hole(&self) -> &BTreeMap<usize, usize> {\n        &self.start_to_hole\n    }\n\n    #[cfg(anydb_verif)]\n    pub fn verif_pending_holes(&self) -> &BTreeMap<usize, usize> {\n        &self.pending_holes\n    }\n\n    #[cfg(anydb_verif)]\n    pub fn verif_start_to_reserved(&self) -> &BTreeMap<usize, usize> {\n        &self.start_to_reserved\n    }\n\n    #[cfg(anydb_verif)]\n    pub fn verif_hole_to_starts(&self) -> Vec<(usize, Vec<usize>)> {\n        self.hole_to_starts\n            .iter()\n            .map(|(k, v)| (*k, v.to_vec()))\n            .collect()\n    }\n'),
])
