#!/usr/bin/env python3
"""One-shot script used to insert the cfg(anydb_verif) taps into vecdb (kept for the record)."""
R='/repo/crates/vecdb/src/'
def edit(path, pairs):
    s=open(R+path).read()
    for old,new,*cnt in pairs:
        n = cnt[0] if cnt else 1
        assert s.count(old)==n, (path, old, s.count(old))
        s=s.replace(old,new)
    open(R+path,'w').write(s)
def tap(ind, mode, expr): return f'{ind}#[cfg(anydb_verif)]\n{ind}rawdb::verif::lock_rw("pages", rawdb::verif::LockMode::{mode}, {expr});\n'
def acc(ind, kind, reader, off, ln): return f'{ind}#[cfg(anydb_verif)]\n{ind}crate::verif::access("{kind}", {reader}, {off}, {ln});\n'

# --- module + thresholds
edit('lib.rs', [
 ('mod version;\n', 'mod version;\n#[cfg(anydb_verif)]\npub mod verif;\n'),
 ('pub(crate) const MMAP_CROSSOVER_BYTES: usize = 1024 * 1024 * 1024; // 1 GiB',
  '#[cfg(not(anydb_verif))]\npub(crate) const MMAP_CROSSOVER_BYTES: usize = 1024 * 1024 * 1024; // 1 GiB\n#[cfg(anydb_verif)]\npub(crate) const MMAP_CROSSOVER_BYTES: rawdb::verif::Threshold<{ rawdb::verif::MMAP_CROSSOVER_CELL }> =\n    rawdb::verif::Threshold;'),
])
edit('traits/writable.rs', [
 ('pub(crate) const MAX_CACHE_SIZE: usize = 1024 * 1024 * 1024;',
  '#[cfg(not(anydb_verif))]\npub(crate) const MAX_CACHE_SIZE: usize = 1024 * 1024 * 1024;\n#[cfg(anydb_verif)]\npub(crate) const MAX_CACHE_SIZE: rawdb::verif::Threshold<{ rawdb::verif::MAX_CACHE_SIZE_CELL }> =\n    rawdb::verif::Threshold;'),
])

# --- shared len
edit('base/shared_len/mod.rs', [
 ('        self.0.load(Ordering::Acquire)\n',
  '        #[cfg(anydb_verif)]\n        {\n            let v = self.0.load(Ordering::Acquire);\n            rawdb::verif::emit(rawdb::verif::Event::Atomic {\n                name: "shared_len",\n                store: false,\n                value: v,\n            });\n            return v;\n        }\n        #[cfg(not(anydb_verif))]\n        self.0.load(Ordering::Acquire)\n'),
 ('        self.0.store(val, Ordering::Release);\n',
  '        #[cfg(anydb_verif)]\n        rawdb::verif::emit(rawdb::verif::Event::Atomic {\n            name: "shared_len",\n            store: true,\n            value: val,\n        });\n        self.0.store(val, Ordering::Release);\n'),
])

# --- header re-exports
edit('base/header/mod.rs', [
 ('#[derive(Debug, Clone)]\npub struct Header {',
  '/// Decodes header bytes: (header_version, vec_version, computed_version, stamp, format byte).\n#[cfg(anydb_verif)]\npub fn verif_header_from_bytes(bytes: &[u8]) -> Result<(u32, u32, u32, u64, u8)> {\n    use crate::Bytes;\n    let h = HeaderInner::verif_from_bytes(bytes)?;\n    Ok((\n        u32::from(h.header_version),\n        u32::from(h.vec_version),\n        u32::from(h.computed_version),\n        u64::from(h.stamp),\n        h.format.to_bytes()[0],\n    ))\n}\n\n#[derive(Debug, Clone)]\npub struct Header {'),
])
edit('base/header/inner.rs', [
 ('    fn from_bytes(bytes: &[u8]) -> Result<Self> {',
  '    #[cfg(anydb_verif)]\n    pub fn verif_from_bytes(bytes: &[u8]) -> Result<Self> {\n        Self::from_bytes(bytes)\n    }\n\n    fn from_bytes(bytes: &[u8]) -> Result<Self> {'),
])

# --- pages lock taps
edit('variants/compressed/inner/read_write/mod.rs', [
 ('        Self::decode_page_with(self.stored_len(), page_index, reader, &self.pages.read())',
  tap('        ','Read','&self.pages')+'        Self::decode_page_with(self.stored_len(), page_index, reader, &self.pages.read())'),
 ('        let reader = self.create_reader();\n        let pages = self.pages.read();\n        let real_len',
  '        let reader = self.create_reader();\n'+tap('        ','Read','&self.pages')+'        let pages = self.pages.read();\n        let real_len'),
])
edit('variants/compressed/inner/read_write/any_stored_vec.rs', [
 ('        self.pages.read().stored_len(Self::PER_PAGE)', tap('        ','Read','&self.pages')+'        self.pages.read().stored_len(Self::PER_PAGE)'),
 ('            let pages = self.pages.read();\n\n            let real_stored_len', tap('            ','Read','&self.pages')+'            let pages = self.pages.read();\n\n            let real_stored_len'),
 ('            let mut pages = self.pages.write();\n            pages.truncate(starting_page_index);', tap('            ','Write','&self.pages')+'            let mut pages = self.pages.write();\n            pages.truncate(starting_page_index);'),
 ('        let mut pages = self.pages.write();\n        pages.truncate(starting_page_index);', tap('        ','Write','&self.pages')+'        let mut pages = self.pages.write();\n        pages.truncate(starting_page_index);'),
])
edit('variants/compressed/inner/read_write/readable.rs', [
 ('            let pages = self.pages.read();', tap('            ','Read','&self.pages')+'            let pages = self.pages.read();'),
])
edit('variants/compressed/inner/read_only/readable.rs', [
 ('        let pages = self.pages.read();', tap('        ','Read','&self.pages')+'        let pages = self.pages.read();'),
])
edit('variants/compressed/inner/read_write/writable.rs', [
 ('        self.pages.write().reset();', tap('        ','Write','&self.pages')+'        self.pages.write().reset();'),
])
edit('variants/compressed/sources/io.rs', [
 ('        let pages = pages.read();', tap('        ','Read','pages')+'        let pages = pages.read();'),
 ('        self.file\n            .read_exact(&mut self.buffer[..total_bytes])\n            .unwrap();',
  '        #[cfg(anydb_verif)]\n        crate::verif::access_meta(\n            "compressed_io:refill",\n            &self._region_lock,\n            start_offset as usize,\n            total_bytes,\n        );\n        self.file\n            .read_exact(&mut self.buffer[..total_bytes])\n            .unwrap();'),
])
edit('variants/compressed/sources/mmap.rs', [
 ('        let to = to.min(stored_len);\n        Self {\n            reader: region.create_reader(),',
  '        let to = to.min(stored_len);\n        #[cfg(anydb_verif)]\n        let pages = crate::verif::TapPages(pages);\n        Self {\n            reader: region.create_reader(),'),
])

# --- access taps, raw
edit('variants/raw/inner/read_write/mod.rs', [
 ('        let ptr = reader.prefixed(HEADER_OFFSET).as_ptr();\n        unsafe { S::read_from_ptr(ptr, index * Self::SIZE_OF_T) }',
  acc('        ','raw:unchecked_read_at','reader','HEADER_OFFSET + index * Self::SIZE_OF_T','Self::SIZE_OF_T')+'        let ptr = reader.prefixed(HEADER_OFFSET).as_ptr();\n        unsafe { S::read_from_ptr(ptr, index * Self::SIZE_OF_T) }'),
 ('            } else {\n                unsafe { S::read_from_ptr(data_ptr, byte_off) }\n            };',
  '            } else {\n'+acc('                ','raw:fold_dirty','&reader','HEADER_OFFSET + byte_off','Self::SIZE_OF_T')+'                unsafe { S::read_from_ptr(data_ptr, byte_off) }\n            };'),
 ('                // SAFETY: i < stored_len, reader holds mmap guard\n                unsafe { S::read_from_ptr(data_ptr, byte_off) }',
  '                // SAFETY: i < stored_len, reader holds mmap guard\n'+acc('                ','raw:try_fold_dirty','&reader','HEADER_OFFSET + byte_off','Self::SIZE_OF_T')+'                unsafe { S::read_from_ptr(data_ptr, byte_off) }'),
])
edit('variants/raw/sources/mmap.rs', [
 ('        while byte_off < end_byte {\n            acc = f(acc, unsafe { S::read_from_ptr(ptr, byte_off) });',
  '        while byte_off < end_byte {\n'+acc('            ','raw_mmap:fold','&self._reader','crate::HEADER_OFFSET + byte_off','Self::SIZE_OF_T')+'            acc = f(acc, unsafe { S::read_from_ptr(ptr, byte_off) });'),
 ('        while byte_off < end_byte {\n            acc = f(acc, unsafe { S::read_from_ptr(ptr, byte_off) })?;',
  '        while byte_off < end_byte {\n'+acc('            ','raw_mmap:try_fold','&self._reader','crate::HEADER_OFFSET + byte_off','Self::SIZE_OF_T')+'            acc = f(acc, unsafe { S::read_from_ptr(ptr, byte_off) })?;'),
])
edit('variants/raw/sources/reader.rs', [
 ('        // SAFETY: index < stored_len guarantees offset + SIZE_OF_T <= data_len\n        unsafe { S::read_from_ptr(self.data, index * Self::SIZE_OF_T) }',
  '        // SAFETY: index < stored_len guarantees offset + SIZE_OF_T <= data_len\n'+acc('        ','vec_reader:get','&self._reader','HEADER_OFFSET + index * Self::SIZE_OF_T','Self::SIZE_OF_T')+'        unsafe { S::read_from_ptr(self.data, index * Self::SIZE_OF_T) }'),
 ('        // SAFETY: index < stored_len guarantees offset + SIZE_OF_T <= data_len\n        Some(unsafe { S::read_from_ptr(self.data, index * Self::SIZE_OF_T) })',
  '        // SAFETY: index < stored_len guarantees offset + SIZE_OF_T <= data_len\n'+acc('        ','vec_reader:try_get','&self._reader','HEADER_OFFSET + index * Self::SIZE_OF_T','Self::SIZE_OF_T')+'        Some(unsafe { S::read_from_ptr(self.data, index * Self::SIZE_OF_T) })'),
])
edit('variants/raw/sources/io.rs', [
 ('        let buffer_len = self.remaining_file_bytes().min(Self::NORMAL_BUFFER_SIZE);\n',
  '        let buffer_len = self.remaining_file_bytes().min(Self::NORMAL_BUFFER_SIZE);\n        #[cfg(anydb_verif)]\n        crate::verif::access_meta(\n            "raw_io:refill",\n            &self._lock,\n            self.file_offset - self._lock.start(),\n            buffer_len,\n        );\n'),
])
edit('variants/raw/inner/read_write/readable.rs', [
 ('                let reader = self.create_reader();\n                let src = unsafe {',
  '                let reader = self.create_reader();\n'+acc('                ','raw:read_into_native','&reader','HEADER_OFFSET + from * Self::SIZE_OF_T','(stored_to - from) * Self::SIZE_OF_T')+'                let src = unsafe {'),
])
edit('variants/raw/inner/read_only/readable.rs', [
 ('        let reader = self.base.region().create_reader();\n        Some(unsafe {',
  '        let reader = self.base.region().create_reader();\n'+acc('        ','raw_ro:collect_one','&reader','HEADER_OFFSET + index * size_of::<T>()','size_of::<T>()')+'        Some(unsafe {'),
 ('            let reader = self.base.region().create_reader();\n            let src = unsafe {',
  '            let reader = self.base.region().create_reader();\n'+acc('            ','raw_ro:read_into_native','&reader','HEADER_OFFSET + from * size_of::<T>()','(to - from) * size_of::<T>()')+'            let src = unsafe {'),
])
edit('variants/raw/zerocopy/mod.rs', [
 ('        let offset = (index * Self::SIZE_OF_T) + HEADER_OFFSET;\n        let bytes = reader.prefixed(offset);',
  '        let offset = (index * Self::SIZE_OF_T) + HEADER_OFFSET;\n'+acc('        ','zerocopy:read_ref','reader','offset','Self::SIZE_OF_T')+'        let bytes = reader.prefixed(offset);'),
])
