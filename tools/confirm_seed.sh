#!/bin/bash
# tools/confirm_seed.sh <seed-id>   (worktree /tmp/seed/<id>, deliverables /tmp/seed/<id>-out)
# Confirms: suite passes with the change; demo fails with it; demo passes without it.
# On success copies the deliverables to /verif/seeded/<id>/ with a "confirmed" record.
set -u
id="$1"; wt=/tmp/seed/$id; out=/tmp/seed/$id-out
export CARGO_TARGET_DIR=$wt/target CARGO_NET_OFFLINE=true
cd $wt || exit 2
crate=$(python3 -c "import json;print(json.load(open('$out/meta.json'))['crate'])")
git checkout -q -- crates && rm -f crates/*/tests/seeded_demo.rs
git apply $out/patch.diff || { echo "$id: patch does not apply"; exit 1; }
suite=$(cargo test --workspace --no-fail-fast --offline 2>&1 | grep -E "^test result" | awk '{p+=$4; f+=$6} END {print p" passed, "f" failed"}')
echo "$id suite with change: $suite"
cp $out/seeded_demo.rs crates/$crate/tests/seeded_demo.rs
feat=""; [ "$crate" = vecdb ] && feat="--features pco,lz4,zstd,zerocopy,derive"
cargo test -p $crate $feat --test seeded_demo --offline > $out/demo_with.log 2>&1; with=$?
git checkout -q -- crates/rawdb/src crates/vecdb/src
cargo test -p $crate $feat --test seeded_demo --offline > $out/demo_without.log 2>&1; without=$?
echo "$id demo with change exit=$with (want !=0); without exit=$without (want 0)"
if [[ "$suite" == *", 0 failed" ]] && [ $with -ne 0 ] && [ $without -eq 0 ]; then
  mkdir -p /verif/seeded/$id
  cp $out/patch.diff $out/seeded_demo.rs /verif/seeded/$id/
  python3 - <<PY
import json
m=json.load(open('$out/meta.json'))
m['confirmed']={'suite_with_change':'$suite','demo_with_change_exit':$with,'demo_without_change_exit':$without,
  'ran':'tools/confirm_seed.sh $id in scratch worktree $wt (cargo test --workspace --no-fail-fast --offline; cargo test -p $crate --test seeded_demo)'}
json.dump(m,open('/verif/seeded/$id/meta.json','w'),indent=1)
PY
  echo "$id CONFIRMED"
else
  echo "$id NOT CONFIRMED"
fi
