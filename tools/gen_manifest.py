#!/usr/bin/env python3
"""Generates /verif/MANIFEST.json from the table below (kept in one place so that the
claimed list and not_applicable stay consistent)."""
import json, subprocess, sys
PROPS = [json.loads(l)['id'] for l in open('/verif/properties.jsonl')]

CLAIMED = {
 # id: (engine, technique, level text, level note, design_ref)
 "C01": ("rawx", "explicit-state BFS over operation histories of the real rawdb against a per-name byte-vector model, state dedup on full implementation state",
         "All operation histories of four alphabets (allocation/reuse, positional edits, naming, everything) up to the stated depths are executed on the real Database; after every step all regions are read back through the real Reader and compared with an independent byte vector per name. Exhaustive within the bound, so any history of that size that corrupts, loses or aliases region bytes is found.",
         "Bounded: <=3 names, listed sizes/offsets, depth per profile (see evidence). Single thread. tmpfs scratch files. The model (a map of byte vectors) is trusted.", "5/C01"),
 "C03": ("vecx", "explicit-state BFS over vector operation histories on every real format against a list-of-optional-values model, state dedup on full implementation state",
         "All histories of push/truncate/write/reset/re-import (plus update/delete/take/fill on raw formats) up to the stated depth are executed on each real format (Bytes, ZeroCopy, Pco, LZ4, Zstd, EagerVec wrappers; several element types in the thorough tier); after every step length, every element, deleted slots and stamp are compared with the model. All formats are checked against the same model, so they agree with each other.",
         "Bounded: push sizes {1,2,3,7} (raw) / {1,2,P-1,P,P+1} (paged), index classes around 0, stored length, page capacity and length; depth per exploration in the evidence. Element values from a position/epoch pattern.", "5/C03"),
 "C04": ("vecx", "explicit-state BFS over commit/edit/rollback histories on the real vectors against a model of committed snapshots",
         "All histories of edits, stamped commits, rollback, rollback_before, clean writes and re-imports up to the stated depth (retention 10, <=3-4 commits) on raw and compressed vectors; after every step the contents, deleted slots and stamp must equal the model's committed snapshot chain, and exploration continues after every rollback.",
         "Bounded as listed in the evidence. rollback/rollback_before are issued from committed states only; unstamped writes only from clean states (DESIGN 5/C04). Recorded defects F3, F4 are cut and printed as KNOWN-FINDING.", "5/C04"),
 "C07": ("vecx", "explicit-state BFS over write/truncate/re-import histories on the real compressed vectors with an independent parser of the on-disk page index",
         "Same exploration as C03 restricted to Pco/LZ4/Zstd with chunk sizes around the page capacity; values must round-trip bit-exactly and after every step the page-index region is parsed independently of the library and checked: gap-free from the header, inner pages full and compressed, counts add up to the stored length, data region ends with the last page.",
         "Bounded as listed. The complete value-space sweep (all f32/u16 bit patterns) is not part of this check yet.", "5/C07"),
 "C08": ("vecx", "explicit-state BFS over vector histories; in every reached state an enumerated battery of every read API x boundary ranges x index lists is compared with the model",
         "In every state reached by the C03 and C04 alphabets (bounded depth) every reading API (collect*, fold*, try_fold with and without early exit, for_each*, read_into, min/max, signed ranges, collect_one/first/last, sorted reads over all subsets of six boundary indices, cursor next/get/advance+fold, read-only and boxed clones, CachedVec, VecReader, fold_stored_io/mmap, and the generic entry points forced onto the file-IO back-end) is called for all pairs of boundary indices (including reversed, out-of-range and usize::MAX) and compared with the model; any panic is a violation.",
         "Stored-only views are compared with the stored layer (last written contents) and only issued, not value-compared, right after a rollback. Cursor paths on vectors with deleted slots (recorded defect F8) are exercised in a dedicated exploration under a watchdog.", "5/C08"),
 "C13": ("rawx+vecx", "explicit-state BFS with every refusable request issued in every reached state; refusal must leave the complete state key unchanged",
         "In every state reached (bounded depth) of the rawdb and vecdb alphabets each refusable request is issued: write beyond the end, truncate beyond the length, rename onto an existing name, remove/retain of a referenced region, Region::flush of a never-written region, checked push at a wrong index, update beyond the end, import with another version or format, rollback without a usable record. The call must fail and the complete canonical state (contents, names, allocator state, dirty flags, buffers, change records) must be identical; since the key determines all later behaviour, so is every continuation.",
         "Bounded as listed. Error variants are compared loosely where the statement does not name one.", "5/C13"),
 "C16": ("vecx", "explicit-state BFS over commit/rollback histories for retention 0..3 with enumerated single-file faults on the change directory",
         "For retention k in {0,1,2,3}: all commit/rollback/rollback_before histories up to the stated depth, and in every state with a usable record every single-file fault (delete; truncate at every 8th - thorough: every - byte offset; each length field overwritten with 2^32, 2^63, u64::MAX, 1000003) followed by a rollback. Oracle: number of possible rollbacks, directory never holds more than k records nor an abandoned future record, failed rollback leaves the full state unchanged, success only ever lands on the committed snapshot.",
         "A damaged record whose damage is immaterial (rollback still lands exactly on the committed snapshot) is accepted. Process aborts are isolated per operation and reported as violations.", "5/C16"),
 "C20": ("vecx", "explicit-state BFS over vector histories; every byte range fetched during the read battery (access tap) is checked against the owning region's current length",
         "The cfg(anydb_verif) access tap reports every mmap/file read made on behalf of a vector (Reader reads, raw pointer reads, native-layout memcpy, VecReader, zero-copy refs, both IO sources). During the C08 battery in every reached state (including states right after a rollback, where the logical length exceeds the on-disk length, and their read-only clones) each reported range must lie inside one of the vector's own regions and below its current length.",
         "Completeness of the tap (14 sites) is by inspection of the read paths. Recorded defect F5 is printed as KNOWN-FINDING.", "5/C20"),
 "C06": ("eagerx", "exhaustive enumeration of source histories x starting indices x batch limits x intermediate write/re-import per compute method, each compared step by step with a from-scratch run on the real EagerVec",
         "For 64 catalogue entries (54 of the 64 public compute_* methods, several with more than one window) every source history of 2 (thorough: 3) steps over {append 1, append 2, truncate and regrow 1 or 2, no change}, every starting-index choice in {0, m/2, m} with m = min(first changed source index, first changed output index, previous length), batch limits {production, 1, 2, 3 elements} (through the cfg(anydb_verif) MAX_CACHE_SIZE cell) and {nothing, write, re-import, redundant second call} between calls is executed; after every call the stored result must equal the same method run from scratch.",
         "Methods not in the catalogue are listed in the evidence (lossy-resume float statistics, index-swapping transforms, filtered index-group variants). Float outputs: differences below 1e-6 relative are counted as rounding, not judged. Output format BytesVec; sources in-memory.", "5/C06"),
 "C05": ("crashx", "explicit-state BFS over operation histories; at every event boundary (mmap write, set_len, sync begin/end, punch) every crash image of two write-back environments is materialised, opened with the real Database::open and judged",
         "The cfg(anydb_verif) tap reports every mmap write (with the bytes), length change, sync and punch of both files; the harness keeps the volatile and durable contents and every version each page has had since that file's last sync. For every transition of the explored histories (two or three flushed regions, then appends in place / with relocation / with file growth, removals, renames, positional overwrites, flush, Region::flush, compact) and every crash point: environment (a) the OS wrote back any subset of dirty pages at any version (regions file: full product; data file: one page at a time around all-old and all-new, only pages inside a decodable slot's contents), environment (b) pages reach the disk only through the library's syncs (inside a sync: any subset of that file's dirty pages). Oracle part 1: image opens, recovered regions disjoint / aligned / inside the file, every region untouched since the last completed flush has its flushed name, length and bytes; part 2 (environment b): every region not overwritten in place equals, as a whole, its state at a completed flush or when the interrupted flush began.",
         "4 KiB page writes atomic; set_len durable in order; punch = zero-page write. Tap completeness is checked after every step (modelled page cache == real files). Independence reduction for data pages argued in DESIGN 3.3.", "5/C05"),
 "C09": ("chessx", "stateless exploration of all schedules (pre-emption bounded DFS) of one writer and one or two reader threads on the real vectors under a controlling scheduler",
         "Programs: a writer that pushes and writes (raw append inside the reserve, with region growth, with file growth; compressed fast raw-page append, page-filling re-encode, multi-page) against readers on read-only and boxed clones doing len / collect_one / collect_range / fold. All schedules with at most 2 (thorough 3) pre-emptions at every lock request, data copy, length update, page-index update and shared-length store. Oracle per execution: every value read equals what the writer pushed at that index, sequences are prefixes, lengths seen by one reader never decrease, no panic, no deadlock.",
         "Sequentially consistent scheduler (no weak-memory effects; the SharedLen acquire/release pair is not model-checked separately). Recorded defect F12 printed as KNOWN-FINDING.", "5/C09"),
 "C10": ("rawx+chessx", "explicit-state BFS with a held Reader (reader clause) plus stateless schedule exploration of 2-3 threads working on distinct regions",
         "Reader clause on one thread: all histories (bounded depth) with a Reader opened at every point and kept; its bytes must always be bytes the region held since its creation. Isolation clause: programs of 2-3 threads, each with its own region and a private model, doing write in reserve / relocating write / growth with file growth / in-place growth of the last region / truncate / create / remove / rename and a Reader read, also against flush, Region::flush and compact; all schedules with at most 1-2 (thorough 2-3) pre-emptions. After each of its own operations a thread compares its region with its model; at the end bystander regions are unchanged and the C02 extent invariants hold.",
         "Bounded programs and pre-emptions as listed in the evidence; the quick tier may stop at its time cap (reported). Recorded defects F11, F13, F23 printed as KNOWN-FINDING.", "5/C10"),
 "C11": ("chessx", "stateless exploration of all schedules (pre-emption bounded DFS) of pairs and triples of library calls under a controlling scheduler whose lock enabledness is read from the real parking_lot locks, with writer preference modelled as an explicit enqueue transition",
         "Catalogue of 15 operations, each with the prepared state that selects its locking path (write in reserve, relocation, file growth, in-place growth of the last region, truncate, rename, remove, create, Region::flush, flush, compact, background compact + sync_bg_tasks, reader, disk_usage, set_min_regions) plus vector writer/reader programs. Quick: all 120 unordered pairs and selected triples with <=1 pre-emption (complete), two three-party shapes with <=2 pre-emptions under an execution cap. Thorough: all pairs and the heavy triples with <=2, all triples with a writer-queuing third operation with <=1, pairs again under a reader-preferring lock model. Verdict: a state with an unfinished thread and no enabled thread is a deadlock; the step horizon is never reached.",
         "Scheduling points at lock requests (layout, regions, mmap, file, region metadata, page index), spawn and join only — sufficient for deadlocks; leaf locks (dirty bounds, background-task list, header) are not modelled. Keeping a Reader across another call on the same thread (documented misuse) is not in the catalogue.", "5/C11"),
 "C12": ("rawx+crashx+chessx", "explicit-state BFS over allocation histories containing compact() with punch events checked against the layout; crash images inside compact(); schedule exploration of compact() against writers",
         "Sequential: in every reached state compact() leaves every live region's bytes, length, start, reserve and the file length unchanged and only punches unused reservation tails or promoted free extents. Crash: every crash point inside compact() with the C05 oracles, and at every punch no regions-file image that may be on disk references the punched bytes. Schedules: compact() against a thread that appends into its reserve, relocates, truncates, removes or creates, all schedules with <=2 (thorough 3) pre-emptions, each writer comparing its region with its private model.",
         "Bounds as listed in the evidence. Recorded defect F11 printed as KNOWN-FINDING.", "5/C12"),
 "C14": ("importx", "exhaustive enumeration of the import configuration cross product on the real code",
         "All 10 925 combinations of stored format x requested format x stored version x requested version x creating entry point x reopening entry point x contents (empty, 3 values, two pages, raw with a deleted slot) x same process / database reopened, plus blocked-removal variants (a handle on the data region held during a forced re-import). Oracle as the statement: matching => contents back through either entry point; mismatch => plain import fails with a version/format error and regions and bytes are untouched, forced import returns a vector that is empty and behaves as empty.",
         "Lock and I/O errors are not injected. Recorded defect F2 (entry points disagree about the stored version) covers all mixed-entry-point cases and is printed as KNOWN-FINDING.", "5/C14"),
 "C15": ("lazyx", "exhaustive enumeration of source contents, window-start / first-index mappings, ranges and index lists for every lazy vector type, compared with the defining formula",
         "LazyVecFrom1/2/3 (index-using, non-commutative functions; unequal source lengths; sources that grow after construction), LazyDeltaVec with DeltaSub/Avg/Change/Rate over all monotone window-start sequences (including empty windows and mappings shorter/longer than the source) and LazyAggVec<Sparse> over all monotone first-index mappings (including past the end): for each, every read API x all (from,to) over 0..len+1 and usize::MAX x all subsets of six indices x cursor paths, compared with the formula evaluated on plain Vecs.",
         "Source length <= 3 (quick) / 5 (thorough); values from {0,2,5} and position patterns; in-memory sources so that only the lazy layer is under test.", "5/C15"),
 "C17": ("codecx+vecx", "exhaustive enumeration of field boundary cross products, truncations and byte / length-field mutations of every on-disk codec, with a counting allocator",
         "RegionMetadata: 11^3 start/len/reserved values x 12 names decoded and judged against independently written validity rules and round trip; all truncations, single-byte replacements (stride 97 quick / every offset thorough) and length-field overwrites; encoder side compared with an independent encoding of real regions. Regions file: every combination of up to 3 (thorough 4) slots each valid / zero / one of 7 garbage classes must open and expose exactly the valid ones. Vector header (all 256 format bytes x version/stamp boundaries), page-index entries, every numeric type and byte-array width, value decoding for every (byte length, claimed count) pair of a grid with peak allocation measured, compressed pages truncated and mutated. Change records: the single-file fault enumeration of the vecx engine.",
         "Allocation bound 4 x input + 64 KiB (+1 MiB codec state for decompress). A process abort is isolated per operation and reported.", "5/C17"),
 "C19": ("versionx", "exhaustive enumeration of compute-call histories with varying presented versions and starting indices on a real EagerVec",
         "Per compute family (compute_to, transform, transform2, add, cumulative, rolling sum) all histories up to depth 4 (thorough 5) over {compute with every presented version combination and starting index in {0, mid, len, len+1}, source growth, write, re-import}. Oracle: version changed => stored result equals a from-scratch result and the closure ran for every index from 0; unchanged => no index below min(start, stored length) re-evaluated or altered; header's computed version equals the last presented combination after every step including re-import.",
         "Two different version combinations with the same sum are indistinguishable to the library (the statement speaks of the combined version) and are not judged. Sources in-memory.", "5/C19"),
 "C02": ("rawx", "explicit-state BFS over operation histories of the real rawdb with extent/partition invariants and the placement rule checked in every reached state",
         "Same exploration as C01 plus initial file sizes (open_with_min_len, set_min_regions); in every reached state the live extents, free extents, deferred extents and reservations are swept for alignment, disjointness, exact partition of the allocated area, merged neighbours and index consistency, and each placement is checked against the free extents that existed before it.",
         "Bounded as C01. Invariants read internal layout state through cfg(anydb_verif) accessors.", "5/C02"),
}

NOT_YET = "engine for this property (openx: handle-lifecycle histories with in-process and child-process open attempts) is not built yet; not claimed until its check runs"

def main():
    checks=[]
    for pid in PROPS:
        if pid in CLAIMED:
            eng, tech, text, note, ref = CLAIMED[pid]
            checks.append({
                "property_id": pid,
                "quick_cmd": f"./check {pid} quick",
                "thorough_cmd": f"./check {pid} thorough",
                "evidence_file": f"/verif/evidence/{pid}.json",
                "replay_cmd_template": "./check replay {path}",
                "engine": eng,
                "level_claimed": {"category": "model_checking", "text": text, "design_ref": ref},
                "level_note": note,
                "technique": tech,
            })
    na=[{"property_id": p, "reason": NOT_YET} for p in PROPS if p not in CLAIMED]
    hooks_commits = subprocess.check_output(['git','-C','/repo','log','--format=%h %s','--grep=^verif:'],text=True).strip().splitlines()
    m={
      "version": 1,
      "setup_cmd": "cd /verif/harness && CARGO_NET_OFFLINE=true cargo build --release",
      "hooks": {
        "guard": "--cfg anydb_verif",
        "enable": "RUSTFLAGS='--cfg anydb_verif' (set in /verif/harness/.cargo/config.toml); the harness depends on /repo/crates/{rawdb,vecdb} by relative path, so every check rebuilds them from the working tree",
        "baseline_off_cmd": "cd /repo && cargo test --workspace --no-fail-fast --offline",
        "source_commits": [c.split()[0] for c in hooks_commits],
        "add_only": True,
      },
      "engines": [
        {"name":"rawx","path":"harness/mc/src/rawx.rs","serves_properties":["C01","C02","C10","C12","C13"],"kind_free_text":"explicit-state BFS over region-operation histories on the real rawdb (worker processes re-execute histories; parent owns frontier and seen-set)"},
        {"name":"crashx","path":"harness/mc/src/crashx.rs","serves_properties":["C05","C12"],"kind_free_text":"crash-image enumeration on top of the rawx history exploration"},
        {"name":"chessx","path":"harness/mc/src/chessx.rs","serves_properties":["C09","C10","C11","C12"],"kind_free_text":"CHESS-style controlled scheduler (harness/mc/src/chess.rs) + pre-emption bounded DFS over schedules of real threads"},
        {"name":"importx","path":"harness/mc/src/importx.rs","serves_properties":["C14"],"kind_free_text":"complete configuration cross product"},
        {"name":"lazyx","path":"harness/mc/src/lazyx.rs","serves_properties":["C15"],"kind_free_text":"exhaustive small-scope enumeration of lazy vectors against formulas"},
        {"name":"codecx","path":"harness/mc/src/codecx.rs","serves_properties":["C17"],"kind_free_text":"boundary / truncation / mutation enumeration of codecs with counting allocator"},
        {"name":"versionx","path":"harness/mc/src/versionx.rs","serves_properties":["C19"],"kind_free_text":"DFS over compute-call histories"},
        {"name":"eagerx","path":"harness/mc/src/eagerx.rs","serves_properties":["C06"],"kind_free_text":"per-method enumeration of source histories, differential against from-scratch"},
        {"name":"vecx","path":"harness/mc/src/vecx.rs","serves_properties":["C03","C04","C07","C08","C13","C16","C20"],"kind_free_text":"explicit-state BFS over vector-operation histories on every real vecdb format, with read battery (vecreads.rs), access-bound tap and change-record fault enumeration"},
      ],
      "checks": checks,
      "not_applicable": na,
      "notes": "All checks: ./check <id> <quick|thorough>; exit 0 = held on everything explored (KNOWN-FINDING lines for recorded defects), exit 1 + VIOLATION line otherwise, exit 2/3 = machinery error. Known findings: /verif/known_findings.json.",
    }
    json.dump(m, open('/verif/MANIFEST.json','w'), indent=1)
    print("claimed", len(checks), "not_applicable", len(na))
main()
