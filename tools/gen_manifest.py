#!/usr/bin/env python3
"""Generates /verif/MANIFEST.json from the table below (kept in one place so that the
claimed list and not_applicable stay consistent)."""
import json, subprocess, sys
PROPS = [json.loads(l)['id'] for l in open('/verif/properties.jsonl')]

CLAIMED = {
 # id: (engine, technique, level text, level note, design_ref)
 "C01": ("rawx", "explicit-state BFS over operation histories of the real rawdb against a per-name byte-vector model, state dedup on full implementation state",
         "All operation histories of four alphabets (allocation/reuse, positional edits, naming, everything) up to the stated depths are executed on the real Database; after every step all regions are read back through the real Reader and compared with an independent byte vector per name. Exhaustive within the bound, so any history of that size that corrupts, loses or aliases region bytes is found.",
         "Bounded: <=3 names, listed sizes/offsets, depth per profile (see evidence). Single thread. tmpfs scratch files. The model (a map of byte vectors) is trusted.", "5/C01"),
 "C02": ("rawx", "explicit-state BFS over operation histories of the real rawdb with extent/partition invariants and the placement rule checked in every reached state",
         "Same exploration as C01 plus initial file sizes (open_with_min_len, set_min_regions); in every reached state the live extents, free extents, deferred extents and reservations are swept for alignment, disjointness, exact partition of the allocated area, merged neighbours and index consistency, and each placement is checked against the free extents that existed before it.",
         "Bounded as C01. Invariants read internal layout state through cfg(anydb_verif) accessors.", "5/C02"),
}

NOT_YET = "engine for this property is not built yet (work in progress, see DESIGN.md section 8); not claimed until its check runs"

def main():
    checks=[]
    for pid in PROPS:
        if pid in CLAIMED:
            eng, tech, text, note, ref = CLAIMED[pid]
            checks.append({
                "property_id": pid,
                "quick_cmd": f"./check {pid} quick",
                "thorough_cmd": f"./check {pid} thorough",
                "evidence_file": f"/verif/evidence/{pid}.json",
                "replay_cmd_template": "./check replay {path}",
                "engine": eng,
                "level_claimed": {"category": "model_checking", "text": text, "design_ref": ref},
                "level_note": note,
                "technique": tech,
            })
    na=[{"property_id": p, "reason": NOT_YET} for p in PROPS if p not in CLAIMED]
    hooks_commits = subprocess.check_output(['git','-C','/repo','log','--format=%h %s','--grep=^verif:'],text=True).strip().splitlines()
    m={
      "version": 1,
      "setup_cmd": "cd /verif/harness && CARGO_NET_OFFLINE=true cargo build --release",
      "hooks": {
        "guard": "--cfg anydb_verif",
        "enable": "RUSTFLAGS='--cfg anydb_verif' (set in /verif/harness/.cargo/config.toml); the harness depends on /repo/crates/{rawdb,vecdb} by relative path, so every check rebuilds them from the working tree",
        "baseline_off_cmd": "cd /repo && cargo test --workspace --no-fail-fast --offline",
        "source_commits": [c.split()[0] for c in hooks_commits],
        "add_only": True,
      },
      "engines": [
        {"name":"rawx","path":"harness/mc/src/rawx.rs","serves_properties":["C01","C02","C10","C12","C13"],"kind_free_text":"explicit-state BFS over region-operation histories on the real rawdb (worker processes re-execute histories; parent owns frontier and seen-set)"},
      ],
      "checks": checks,
      "not_applicable": na,
      "notes": "All checks: ./check <id> <quick|thorough>; exit 0 = held on everything explored (KNOWN-FINDING lines for recorded defects), exit 1 + VIOLATION line otherwise, exit 2/3 = machinery error. Known findings: /verif/known_findings.json.",
    }
    json.dump(m, open('/verif/MANIFEST.json','w'), indent=1)
    print("claimed", len(checks), "not_applicable", len(na))
main()
