#!/usr/bin/env python3
"""Generates /verif/MANIFEST.json from the table below (kept in one place so that the
claimed list and not_applicable stay consistent)."""
import json, subprocess, sys
PROPS = [json.loads(l)['id'] for l in open('/verif/properties.jsonl')]

CLAIMED = {
 # id: (engine, technique, level text, level note, design_ref)
 "C01": ("rawx", "explicit-state BFS over operation histories of the real rawdb against a per-name byte-vector model, state dedup on full implementation state",
         "All operation histories of four alphabets (allocation/reuse, positional edits, naming, everything) up to the stated depths are executed on the real Database; after every step all regions are read back through the real Reader and compared with an independent byte vector per name. Exhaustive within the bound, so any history of that size that corrupts, loses or aliases region bytes is found.",
         "Bounded: <=3 names, listed sizes/offsets, depth per profile (see evidence). Single thread. tmpfs scratch files. The model (a map of byte vectors) is trusted.", "5/C01"),
 "C03": ("vecx", "explicit-state BFS over vector operation histories on every real format against a list-of-optional-values model, state dedup on full implementation state",
         "All histories of push/truncate/write/reset/re-import (plus update/delete/take/fill on raw formats) up to the stated depth are executed on each real format (Bytes, ZeroCopy, Pco, LZ4, Zstd, EagerVec wrappers; several element types in the thorough tier); after every step length, every element, deleted slots and stamp are compared with the model. All formats are checked against the same model, so they agree with each other.",
         "Bounded: push sizes {1,2,3,7} (raw) / {1,2,P-1,P,P+1} (paged), index classes around 0, stored length, page capacity and length; depth per exploration in the evidence. Element values from a position/epoch pattern.", "5/C03"),
 "C04": ("vecx", "explicit-state BFS over commit/edit/rollback histories on the real vectors against a model of committed snapshots",
         "All histories of edits, stamped commits, rollback, rollback_before, clean writes and re-imports up to the stated depth (retention 10, <=3-4 commits) on raw and compressed vectors; after every step the contents, deleted slots and stamp must equal the model's committed snapshot chain, and exploration continues after every rollback.",
         "Bounded as listed in the evidence. rollback/rollback_before are issued from committed states only; unstamped writes only from clean states (DESIGN 5/C04). Recorded defects F3, F4 are cut and printed as KNOWN-FINDING.", "5/C04"),
 "C07": ("vecx", "explicit-state BFS over write/truncate/re-import histories on the real compressed vectors with an independent parser of the on-disk page index",
         "Same exploration as C03 restricted to Pco/LZ4/Zstd with chunk sizes around the page capacity; values must round-trip bit-exactly and after every step the page-index region is parsed independently of the library and checked: gap-free from the header, inner pages full and compressed, counts add up to the stored length, data region ends with the last page.",
         "Bounded as listed. The complete value-space sweep (all f32/u16 bit patterns) is not part of this check yet.", "5/C07"),
 "C08": ("vecx", "explicit-state BFS over vector histories; in every reached state an enumerated battery of every read API x boundary ranges x index lists is compared with the model",
         "In every state reached by the C03 and C04 alphabets (bounded depth) every reading API (collect*, fold*, try_fold with and without early exit, for_each*, read_into, min/max, signed ranges, collect_one/first/last, sorted reads over all subsets of six boundary indices, cursor next/get/advance+fold, read-only and boxed clones, CachedVec, VecReader, fold_stored_io/mmap, and the generic entry points forced onto the file-IO back-end) is called for all pairs of boundary indices (including reversed, out-of-range and usize::MAX) and compared with the model; any panic is a violation.",
         "Stored-only views are compared with the stored layer (last written contents) and only issued, not value-compared, right after a rollback. Cursor paths on vectors with deleted slots (recorded defect F8) are exercised in a dedicated exploration under a watchdog.", "5/C08"),
 "C13": ("rawx+vecx", "explicit-state BFS with every refusable request issued in every reached state; refusal must leave the complete state key unchanged",
         "In every state reached (bounded depth) of the rawdb and vecdb alphabets each refusable request is issued: write beyond the end, truncate beyond the length, rename onto an existing name, remove/retain of a referenced region, Region::flush of a never-written region, checked push at a wrong index, update beyond the end, import with another version or format, rollback without a usable record. The call must fail and the complete canonical state (contents, names, allocator state, dirty flags, buffers, change records) must be identical; since the key determines all later behaviour, so is every continuation.",
         "Bounded as listed. Error variants are compared loosely where the statement does not name one.", "5/C13"),
 "C16": ("vecx", "explicit-state BFS over commit/rollback histories for retention 0..3 with enumerated single-file faults on the change directory",
         "For retention k in {0,1,2,3}: all commit/rollback/rollback_before histories up to the stated depth, and in every state with a usable record every single-file fault (delete; truncate at every 8th - thorough: every - byte offset; each length field overwritten with 2^32, 2^63, u64::MAX, 1000003) followed by a rollback. Oracle: number of possible rollbacks, directory never holds more than k records nor an abandoned future record, failed rollback leaves the full state unchanged, success only ever lands on the committed snapshot.",
         "A damaged record whose damage is immaterial (rollback still lands exactly on the committed snapshot) is accepted. Process aborts are isolated per operation and reported as violations.", "5/C16"),
 "C20": ("vecx", "explicit-state BFS over vector histories; every byte range fetched during the read battery (access tap) is checked against the owning region's current length",
         "The cfg(anydb_verif) access tap reports every mmap/file read made on behalf of a vector (Reader reads, raw pointer reads, native-layout memcpy, VecReader, zero-copy refs, both IO sources). During the C08 battery in every reached state (including states right after a rollback, where the logical length exceeds the on-disk length, and their read-only clones) each reported range must lie inside one of the vector's own regions and below its current length.",
         "Completeness of the tap (14 sites) is by inspection of the read paths. Recorded defect F5 is printed as KNOWN-FINDING.", "5/C20"),
 "C02": ("rawx", "explicit-state BFS over operation histories of the real rawdb with extent/partition invariants and the placement rule checked in every reached state",
         "Same exploration as C01 plus initial file sizes (open_with_min_len, set_min_regions); in every reached state the live extents, free extents, deferred extents and reservations are swept for alignment, disjointness, exact partition of the allocated area, merged neighbours and index consistency, and each placement is checked against the free extents that existed before it.",
         "Bounded as C01. Invariants read internal layout state through cfg(anydb_verif) accessors.", "5/C02"),
}

NOT_YET = "engine for this property is not built yet (work in progress, see DESIGN.md section 8); not claimed until its check runs"

def main():
    checks=[]
    for pid in PROPS:
        if pid in CLAIMED:
            eng, tech, text, note, ref = CLAIMED[pid]
            checks.append({
                "property_id": pid,
                "quick_cmd": f"./check {pid} quick",
                "thorough_cmd": f"./check {pid} thorough",
                "evidence_file": f"/verif/evidence/{pid}.json",
                "replay_cmd_template": "./check replay {path}",
                "engine": eng,
                "level_claimed": {"category": "model_checking", "text": text, "design_ref": ref},
                "level_note": note,
                "technique": tech,
            })
    na=[{"property_id": p, "reason": NOT_YET} for p in PROPS if p not in CLAIMED]
    hooks_commits = subprocess.check_output(['git','-C','/repo','log','--format=%h %s','--grep=^verif:'],text=True).strip().splitlines()
    m={
      "version": 1,
      "setup_cmd": "cd /verif/harness && CARGO_NET_OFFLINE=true cargo build --release",
      "hooks": {
        "guard": "--cfg anydb_verif",
        "enable": "RUSTFLAGS='--cfg anydb_verif' (set in /verif/harness/.cargo/config.toml); the harness depends on /repo/crates/{rawdb,vecdb} by relative path, so every check rebuilds them from the working tree",
        "baseline_off_cmd": "cd /repo && cargo test --workspace --no-fail-fast --offline",
        "source_commits": [c.split()[0] for c in hooks_commits],
        "add_only": True,
      },
      "engines": [
        {"name":"rawx","path":"harness/mc/src/rawx.rs","serves_properties":["C01","C02","C10","C12","C13"],"kind_free_text":"explicit-state BFS over region-operation histories on the real rawdb (worker processes re-execute histories; parent owns frontier and seen-set)"},
        {"name":"vecx","path":"harness/mc/src/vecx.rs","serves_properties":["C03","C04","C07","C08","C13","C16","C20"],"kind_free_text":"explicit-state BFS over vector-operation histories on every real vecdb format, with read battery (vecreads.rs), access-bound tap and change-record fault enumeration"},
      ],
      "checks": checks,
      "not_applicable": na,
      "notes": "All checks: ./check <id> <quick|thorough>; exit 0 = held on everything explored (KNOWN-FINDING lines for recorded defects), exit 1 + VIOLATION line otherwise, exit 2/3 = machinery error. Known findings: /verif/known_findings.json.",
    }
    json.dump(m, open('/verif/MANIFEST.json','w'), indent=1)
    print("claimed", len(checks), "not_applicable", len(na))
main()
