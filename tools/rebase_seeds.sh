#!/bin/bash
# tools/rebase_seeds.sh — re-expresses every stored seeded change against /repo's current HEAD
# (patch.diff was made by a sub-agent against the HEAD of its time; later fix: commits moved
# context lines). Works in a scratch worktree under /tmp, which it removes again.
set -u
wt=/tmp/seed/rebase
git -C /repo worktree remove --force $wt 2>/dev/null
git -C /repo worktree add --detach $wt HEAD -q || exit 2
export CARGO_TARGET_DIR=$wt/target CARGO_NET_OFFLINE=true
for d in /verif/seeded/*/; do
  id=$(basename $d)
  cd $wt && git checkout -q -- . && git clean -fdq crates
  if git apply --check $d/patch.diff 2>/dev/null; then
    git apply $d/patch.diff; how=exact
  elif patch -p1 -F3 -s --no-backup-if-mismatch < $d/patch.diff >/dev/null 2>&1; then
    how=fuzz; find . -name '*.orig' -o -name '*.rej' | grep -v target | xargs -r rm -f
  else
    echo "$id: DOES NOT APPLY"; continue
  fi
  git diff -- crates > $d/patch.rebased.diff
  if cargo check -q --offline -p rawdb -p vecdb --features vecdb/pco,vecdb/lz4,vecdb/zstd,vecdb/zerocopy 2>/dev/null; then ok=compiles; else ok="DOES NOT COMPILE"; fi
  echo "$id: $how, $ok, $(grep -c '^[+-][^+-]' $d/patch.rebased.diff) changed lines"
done
cd / && git -C /repo worktree remove --force $wt
