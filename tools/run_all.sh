#!/bin/bash
# tools/run_all.sh [quick|thorough]  — runs every claimed check in turn, prints the summary lines
tier="${1:-quick}"
cd /verif || exit 2
rc=0
for i in $(seq -w 1 20); do
  p="C$i"
  s=$(date +%s)
  out=$(./check "$p" "$tier" 2>&1); e=$?
  echo "$out" | grep -E "^VIOLATION|MACHINERY-ERROR" | head -5
  echo "$(echo "$out" | tail -1 | cut -c1-160)  [exit=$e, $(( $(date +%s) - s )) s]"
  [ $e -ne 0 ] && rc=1
done
exit $rc
