#!/bin/bash
# tools/sweep_seeds.sh [tier] [id...] — for every stored seeded change: apply it to /repo's working tree
# (never committed), run the quick check of the property it was written against, revert,
# and record whether the check raised a VIOLATION. Writes seeded/<id>/detection.json and
# seeded/RESULTS.md.
set -u
tier="${1:-quick}"; shift
ids=("$@"); [ ${#ids[@]} -eq 0 ] && ids=($(ls /verif/seeded | grep -E '^C[0-9]+[a-z]$'))
cd /repo || exit 2
if ! git diff --quiet; then echo "/repo has uncommitted changes; refusing"; exit 2; fi
head=$(git rev-parse --short HEAD)
trap 'git -C /repo checkout -- .' EXIT
for id in "${ids[@]}"; do
  d=/verif/seeded/$id; p=$d/patch.rebased.diff; [ -f $p ] || p=$d/patch.diff
  # the check that is expected to report it: the targeted property's, unless meta.json names another
  prop=$(python3 -c "import json;m=json.load(open('$d/meta.json'));print(m.get('reported_by') or m['property'])")
  git -C /repo checkout -- .
  if ! git -C /repo apply $p; then echo "$id: patch does not apply"; continue; fi
  s=$(date +%s)
  out=$(VERIF_NO_EVIDENCE=1 /verif/check $prop $tier 2>&1); e=$?
  git -C /repo checkout -- .
  nviol=$(echo "$out" | grep -c "^VIOLATION property=$prop ")
  sig=$(echo "$out" | grep -m1 "signature:" | sed 's/^ *signature: *//' | cut -c1-200)
  python3 - "$id" "$prop" "$tier" "$e" "$nviol" "$sig" "$head" "$(( $(date +%s) - s ))" <<'PY'
import json,sys
id,prop,tier,e,n,sig,head,secs=sys.argv[1:]
json.dump({"seed":id,"check":f"./check {prop} {tier}","repo_head":head,"exit":int(e),"violation_lines":int(n),
           "first_signature":sig,"detected":int(e)==1 and int(n)>0,"seconds":int(secs)},
          open(f"/verif/seeded/{id}/detection.json","w"),indent=1)
PY
  echo "$id: $prop $tier exit=$e violations=$nviol  $sig"
done
python3 - <<'PY'
import json,glob,os
rows=[]
for d in sorted(glob.glob('/verif/seeded/C*')):
    try:
        m=json.load(open(d+'/meta.json')); r=json.load(open(d+'/detection.json'))
    except Exception: continue
    rows.append(f"| {os.path.basename(d)} | {m['property']} | {m['summary'].split('. ')[0][:150].replace('|','/')} | `{r['check']}` | {'VIOLATION' if r['detected'] else 'missed'} | `{r['first_signature'][:90].replace('|','/')}` |")
open('/verif/seeded/RESULTS.md','w').write("# Seeded changes and the check that reports them\n\nWritten by tools/sweep_seeds.sh (each change applied to /repo's working tree, check run, change reverted).\n\n| seed | property | change (first sentence of the author's summary) | check | result | first signature |\n|---|---|---|---|---|---|\n"+"\n".join(rows)+"\n")
PY
