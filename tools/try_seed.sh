#!/bin/bash
# tools/try_seed.sh <patch.diff> <Cxx> [<Cxx>...] [-- tier]
# Applies a seeded change to /repo, runs the named quick checks, and always reverts.
set -u
patch="$(readlink -f "$1")"; shift
tier=quick
checks=()
while [ $# -gt 0 ]; do
  if [ "$1" = "--" ]; then shift; tier="$1"; shift; else checks+=("$1"); shift; fi
done
cd /repo || exit 2
if ! git diff --quiet; then echo "/repo has uncommitted changes; refusing"; exit 2; fi
[ -f "$(dirname "$patch")/patch.rebased.diff" ] && patch="$(dirname "$patch")/patch.rebased.diff"
if ! git apply --check "$patch" 2>/dev/null; then echo "patch does not apply"; exit 2; fi
git apply "$patch"
trap 'git -C /repo checkout -- . ; echo "[reverted]"' EXIT
for c in "${checks[@]}"; do
  echo "=== $c $tier with $(basename $(dirname $patch))"
  VERIF_NO_EVIDENCE=1 /verif/check "$c" "$tier" 2>&1 | grep -E "VIOLATION|KNOWN-FINDING|signature:|detail:|history:|exit=|MACHINERY" | head -20
done
